//! C07 — RTR PDUs survive the wire unchanged; broken streams end in errors.
//!
//! (a) Round trip: every payload item x action x version 0-2 over boundary
//! domains and every control PDU, written with the library, read back through
//! every reader that can consume it over E3's scripted socket under every
//! fragmentation into <= 3 chunks; also whole responses through the real
//! `Client`. (b) Faults: every sequence of <= 2 seed PDUs cut at every
//! truncation point (stream closed after k octets) and every single
//! header-field corruption, into every reader including `Error::skip_payload`
//! and the client's first-reply readers. The reference is a small wire
//! grammar written here (header, fixed sizes, the two variable layouts).
//! (c) `client.fields`: the header fields that recur within one reply
//! (session in Cache Response / Serial Notify / End of Data; version in every
//! PDU) chosen independently, on the reset and serial paths and over two steps
//! of one client: a step that succeeds leaves the End of Data's state.
//! (d) `fault.truncation.scale`: variable parts crossing every power of two up
//! to 2^17 (2^20), cut around every power-of-two / stride boundary and the end.

use std::cell::RefCell;
use std::collections::{BTreeMap, BTreeSet, HashSet};
use std::hash::{Hash, Hasher};
use std::str::FromStr;
use std::io;
use std::net::{IpAddr, Ipv4Addr, Ipv6Addr};
use std::sync::{Arc, Mutex};
use bytes::Bytes;
use futures_util::FutureExt;
use tokio::io::AsyncWrite;
use rayon::prelude::*;
use rpki::crypto::keys::KeyIdentifier;
use rpki::resources::addr::{MaxLenPrefix, Prefix};
use rpki::resources::asn::Asn;
use rpki::rtr::client::{Client, PayloadError, PayloadTarget};
use rpki::rtr::payload::{Action, Aspa as ItemAspa, Payload, PayloadRef, RouteOrigin, RouterKey as ItemKey, Timing};
use rpki::rtr::pdu;
use rpki::rtr::server::{NotifySender, PayloadDiff, PayloadSet, PayloadSource, Server};
use rpki::rtr::state::{Serial, State};
use rpki_verif::{hex, trunc, Ctx, Space};

#[path = "../shared/rtr_sched.rs"] mod rtr_sched;
use rtr_sched::{join_within, play, quiesce, render_script, sock_pair, Ev, Joined, Sched, ScriptedSock, HORIZON};


//------------ PDU values ----------------------------------------------------

/// PDU types with a reader of their own.
#[derive(Clone, Copy, Debug, PartialEq, Eq, PartialOrd, Ord)]
enum Ty { SerialNotify, SerialQuery, ResetQuery, CacheResponse, V4, V6, EodV0, EodV1, CacheReset, RouterKey, Aspa, Error }

impl Ty {
    fn code(self) -> u8 {
        match self {
            Ty::SerialNotify => 0, Ty::SerialQuery => 1, Ty::ResetQuery => 2, Ty::CacheResponse => 3, Ty::V4 => 4,
            Ty::V6 => 6, Ty::EodV0 | Ty::EodV1 => 7, Ty::CacheReset => 8, Ty::RouterKey => 9, Ty::Error => 10, Ty::Aspa => 11,
        }
    }
    /// Size of the fixed-layout types.
    fn fixed(self) -> Option<usize> {
        Some(match self {
            Ty::SerialNotify | Ty::SerialQuery | Ty::EodV0 => 12, Ty::ResetQuery | Ty::CacheResponse | Ty::CacheReset => 8,
            Ty::V4 => 20, Ty::V6 => 32, Ty::EodV1 => 24, Ty::RouterKey | Ty::Aspa | Ty::Error => return None,
        })
    }
    const FIXED: [Ty; 9] = [Ty::SerialNotify, Ty::SerialQuery, Ty::ResetQuery, Ty::CacheResponse, Ty::V4, Ty::V6, Ty::EodV0, Ty::EodV1, Ty::CacheReset];
}

/// Plain description of a PDU: what is handed to the library's constructors
/// and what the readers' accessors are compared with.
#[derive(Clone, Debug, PartialEq, Eq)]
enum Val {
    SerialNotify { v: u8, session: u16, serial: u32 },
    SerialQuery { v: u8, session: u16, serial: u32 },
    ResetQuery { v: u8 },
    CacheResponse { v: u8, session: u16 },
    V4 { v: u8, flags: u8, plen: u8, mlen: u8, addr: u32, asn: u32 },
    V6 { v: u8, flags: u8, plen: u8, mlen: u8, addr: u128, asn: u32 },
    Key { v: u8, flags: u8, ski: [u8; 20], asn: u32, info: Vec<u8> },
    Aspa { v: u8, flags: u8, customer: u32, providers: Vec<u32> },
    EodV0 { session: u16, serial: u32 },
    EodV1 { v: u8, session: u16, serial: u32, refresh: u32, retry: u32, expire: u32 },
    CacheReset { v: u8 },
    Error { v: u8, code: u16, pdu: Vec<u8>, text: Vec<u8> },
}

/// The library's value for a PDU.
#[derive(Clone, Debug, PartialEq, Eq)]
enum Built {
    SerialNotify(pdu::SerialNotify), SerialQuery(pdu::SerialQuery), ResetQuery(pdu::ResetQuery),
    CacheResponse(pdu::CacheResponse), V4(pdu::Ipv4Prefix), V6(pdu::Ipv6Prefix), Key(pdu::RouterKey),
    Aspa(pdu::Aspa), EodV0(pdu::EndOfDataV0), EodV1(pdu::EndOfDataV1), CacheReset(pdu::CacheReset), Error(pdu::Error),
}

fn st(session: u16, serial: u32) -> State { State::from_parts(session, Serial(serial)) }

impl Val {
    fn ty(&self) -> Ty {
        match self {
            Val::SerialNotify { .. } => Ty::SerialNotify, Val::SerialQuery { .. } => Ty::SerialQuery, Val::ResetQuery { .. } => Ty::ResetQuery,
            Val::CacheResponse { .. } => Ty::CacheResponse, Val::V4 { .. } => Ty::V4, Val::V6 { .. } => Ty::V6, Val::Key { .. } => Ty::RouterKey,
            Val::Aspa { .. } => Ty::Aspa, Val::EodV0 { .. } => Ty::EodV0, Val::EodV1 { .. } => Ty::EodV1, Val::CacheReset { .. } => Ty::CacheReset,
            Val::Error { .. } => Ty::Error,
        }
    }

    fn version(&self) -> u8 {
        match self {
            Val::SerialNotify { v, .. } | Val::SerialQuery { v, .. } | Val::ResetQuery { v } | Val::CacheResponse { v, .. }
            | Val::V4 { v, .. } | Val::V6 { v, .. } | Val::Key { v, .. } | Val::Aspa { v, .. } | Val::EodV1 { v, .. }
            | Val::CacheReset { v } | Val::Error { v, .. } => *v,
            Val::EodV0 { .. } => 0,
        }
    }

    fn build(&self) -> Built {
        match self {
            Val::SerialNotify { v, session, serial } => Built::SerialNotify(pdu::SerialNotify::new(*v, st(*session, *serial))),
            Val::SerialQuery { v, session, serial } => Built::SerialQuery(pdu::SerialQuery::new(*v, st(*session, *serial))),
            Val::ResetQuery { v } => Built::ResetQuery(pdu::ResetQuery::new(*v)),
            Val::CacheResponse { v, session } => Built::CacheResponse(pdu::CacheResponse::new(*v, st(*session, 0))),
            Val::V4 { v, flags, plen, mlen, addr, asn } =>
                Built::V4(pdu::Ipv4Prefix::new(*v, *flags, *plen, *mlen, Ipv4Addr::from(*addr), Asn::from_u32(*asn))),
            Val::V6 { v, flags, plen, mlen, addr, asn } =>
                Built::V6(pdu::Ipv6Prefix::new(*v, *flags, *plen, *mlen, Ipv6Addr::from(*addr), Asn::from_u32(*asn))),
            Val::Key { v, flags, ski, asn, info } => Built::Key(pdu::RouterKey::new(
                *v, *flags, *ski, Asn::from_u32(*asn), pdu::RouterKeyInfo::new(Bytes::from(info.clone())).unwrap())),
            Val::Aspa { v, flags, customer, providers } => Built::Aspa(pdu::Aspa::new(
                *v, *flags, Asn::from_u32(*customer),
                pdu::ProviderAsns::try_from_iter(providers.iter().map(|p| Asn::from_u32(*p))).unwrap())),
            Val::EodV0 { session, serial } => Built::EodV0(pdu::EndOfDataV0::new(st(*session, *serial))),
            Val::EodV1 { v, session, serial, refresh, retry, expire } => Built::EodV1(pdu::EndOfDataV1::new(
                *v, st(*session, *serial), Timing { refresh: *refresh, retry: *retry, expire: *expire })),
            Val::CacheReset { v } => Built::CacheReset(pdu::CacheReset::new(*v)),
            Val::Error { v, code, pdu, text } => Built::Error(pdu::Error::new(*v, *code, pdu, text)),
        }
    }

    /// Canonical rendering for witnesses (long octet strings abbreviated to length + fill).
    fn render(&self) -> String {
        match self {
            Val::Key { v, flags, ski, asn, info } =>
                format!("Key{{v:{v},flags:{flags:#x},ski:{:#04x}..,asn:{asn:#x},info:{}x{:#04x}}}", ski[0], info.len(), info.first().copied().unwrap_or(0)),
            Val::Aspa { v, flags, customer, providers } =>
                format!("Aspa{{v:{v},flags:{flags:#x},customer:{customer:#x},providers:{}x{:#x}..}}", providers.len(), providers.first().copied().unwrap_or(0)),
            Val::Error { v, code, pdu, text } => {
                let short = |b: &[u8]| if b.len() <= 12 { format!("[{}]", hex(b)) } else { format!("[{}..]x{}", hex(&b[..6]), b.len()) };
                format!("Error{{v:{v},code:{code},pdu:{},text:{}}}", short(pdu), short(text))
            }
            other => format!("{other:?}").replace(' ', ""),
        }
    }
}

/// Writes a PDU with the library, either through the type's own `write`
/// or (payload PDUs, end of data) through the `Payload` / `EndOfData` enums.
async fn write_built<W: AsyncWrite + Unpin>(b: &Built, via_enum: bool, w: &mut W) -> io::Result<()> {
    match (b, via_enum) {
        (Built::V4(p), true) => pdu::Payload::V4(*p).write(w).await,
        (Built::V6(p), true) => pdu::Payload::V6(*p).write(w).await,
        (Built::Key(p), true) => pdu::Payload::RouterKey(p.clone()).write(w).await,
        (Built::Aspa(p), true) => pdu::Payload::Aspa(p.clone()).write(w).await,
        (Built::EodV0(p), true) => pdu::EndOfData::V0(*p).write(w).await,
        (Built::EodV1(p), true) => pdu::EndOfData::V1(*p).write(w).await,
        (Built::SerialNotify(p), _) => p.write(w).await, (Built::SerialQuery(p), _) => p.write(w).await,
        (Built::ResetQuery(p), _) => p.write(w).await, (Built::CacheResponse(p), _) => p.write(w).await,
        (Built::V4(p), _) => p.write(w).await, (Built::V6(p), _) => p.write(w).await,
        (Built::Key(p), _) => p.write(w).await, (Built::Aspa(p), _) => p.write(w).await,
        (Built::EodV0(p), _) => p.write(w).await, (Built::EodV1(p), _) => p.write(w).await,
        (Built::CacheReset(p), _) => p.write(w).await, (Built::Error(p), _) => p.write(w).await,
    }
}

impl Built {
    fn has_enum_path(&self) -> bool {
        matches!(self, Built::V4(_) | Built::V6(_) | Built::Key(_) | Built::Aspa(_) | Built::EodV0(_) | Built::EodV1(_))
    }

    /// The octets the library writes into a Vec.
    fn wire(&self) -> Vec<u8> {
        let mut out: Vec<u8> = Vec::new();
        write_built(self, false, &mut out).now_or_never()
            .expect("writing to a Vec is never pending").expect("writing to a Vec cannot fail");
        out
    }
}

/// The payload item and action a payload PDU description stands for.
fn expected_payload(val: &Val) -> Option<(Action, Payload)> {
    let act = |flags: u8| if flags & 1 == 1 { Action::Announce } else { Action::Withdraw };
    Some(match val {
        Val::V4 { flags, plen, mlen, addr, asn, .. } => (act(*flags), Payload::origin(
            MaxLenPrefix::new(Prefix::new_v4(Ipv4Addr::from(*addr), *plen).ok()?, Some(*mlen)).ok()?, Asn::from_u32(*asn))),
        Val::V6 { flags, plen, mlen, addr, asn, .. } => (act(*flags), Payload::origin(
            MaxLenPrefix::new(Prefix::new_v6(Ipv6Addr::from(*addr), *plen).ok()?, Some(*mlen)).ok()?, Asn::from_u32(*asn))),
        Val::Key { flags, ski, asn, info, .. } => (act(*flags), Payload::router_key(
            KeyIdentifier::from(*ski), Asn::from_u32(*asn), pdu::RouterKeyInfo::new(Bytes::from(info.clone())).ok()?)),
        Val::Aspa { flags, customer, providers, .. } => (act(*flags), Payload::aspa(
            Asn::from_u32(*customer), pdu::ProviderAsns::try_from_iter(providers.iter().map(|p| Asn::from_u32(*p))).ok()?)),
        _ => return None,
    })
}


//------------ readers -------------------------------------------------------

/// The library's ways of reading a PDU from a stream.
#[derive(Clone, Copy, Debug, PartialEq, Eq, PartialOrd, Ord)]
enum Rd {
    /// `T::read`
    Read(Ty),
    /// `T::try_read`
    TryRead(Ty),
    /// `Header::read`, then (as the library's callers do) `T::read_payload` if the type is T's.
    Dispatch(Ty),
    /// `Payload::read`
    PayloadRead,
    /// `Header::read`, then `EndOfData::read_payload` if the type is 7.
    EodDispatch,
    /// `Header::read`, then `Error::skip_payload` if the type is 10.
    SkipError,
    /// `Header::read`, then (as the server does) `SerialQueryPayload::read` for type 1 with length 12.
    SerialBody,
    /// As `Dispatch`, with the header obtained by another public route than `Header::read`.
    DispatchVia(Ty, Hr),
    /// As `EodDispatch`, header by another route.
    EodVia(Hr),
    /// As `SkipError`, header by another route.
    SkipVia(Hr),
}

/// The public routes to a `Header` value other than `Header::read`: the
/// `*::read_payload(header, ..)` / `Error::skip_payload(header, ..)` functions take any header.
#[derive(Clone, Copy, Debug, PartialEq, Eq, PartialOrd, Ord)]
enum Hr {
    /// `Header::default()` filled through `as_mut()` (the way the library's own server and client collect headers).
    AsMut,
    /// `Header::new(version, type, session, length)` from the eight octets.
    New,
    /// The header `SerialNotify::try_read` hands back as `Ok(Err(header))` when it meets an Error PDU (SkipVia only).
    TryAlt,
}

impl Rd {
    fn render(self) -> String {
        match self {
            Rd::Read(t) => format!("{t:?}::read"), Rd::TryRead(t) => format!("{t:?}::try_read"),
            Rd::Dispatch(t) => format!("Header::read+{t:?}::read_payload"), Rd::PayloadRead => "Payload::read".into(),
            Rd::EodDispatch => "Header::read+EndOfData::read_payload".into(), Rd::SkipError => "Header::read+Error::skip_payload".into(),
            Rd::SerialBody => "Header::read+SerialQueryPayload::read".into(),
            Rd::DispatchVia(t, h) => format!("Header[{h:?}]+{t:?}::read_payload"),
            Rd::EodVia(h) => format!("Header[{h:?}]+EndOfData::read_payload"),
            Rd::SkipVia(h) => format!("Header[{h:?}]+Error::skip_payload"),
        }
    }
}

/// What a reader returned.
#[derive(Clone, Debug, PartialEq, Eq)]
enum Got {
    Pdu(Built),
    /// `try_read` met an Error PDU header.
    TryAlt(pdu::Header),
    /// The header's type is not the one the dispatching reader handles.
    NotDispatched(pdu::Header),
    Payload(pdu::Payload),
    PayloadNone,
    Eod(pdu::EndOfData),
    Skipped(pdu::Header),
    SerialBody(pdu::Header, pdu::SerialQueryPayload),
}

macro_rules! fixed_read {
    ($how:ident, $ty:expr, $sock:expr) => {
        match $ty {
            Ty::SerialNotify => fixed_read!(@$how pdu::SerialNotify, SerialNotify, $sock),
            Ty::SerialQuery => fixed_read!(@$how pdu::SerialQuery, SerialQuery, $sock),
            Ty::ResetQuery => fixed_read!(@$how pdu::ResetQuery, ResetQuery, $sock),
            Ty::CacheResponse => fixed_read!(@$how pdu::CacheResponse, CacheResponse, $sock),
            Ty::V4 => fixed_read!(@$how pdu::Ipv4Prefix, V4, $sock),
            Ty::V6 => fixed_read!(@$how pdu::Ipv6Prefix, V6, $sock),
            Ty::EodV0 => fixed_read!(@$how pdu::EndOfDataV0, EodV0, $sock),
            Ty::EodV1 => fixed_read!(@$how pdu::EndOfDataV1, EodV1, $sock),
            Ty::CacheReset => fixed_read!(@$how pdu::CacheReset, CacheReset, $sock),
            Ty::RouterKey | Ty::Aspa | Ty::Error => unreachable!(),
        }
    };
    (@read $t:ty, $b:ident, $sock:expr) => { <$t>::read($sock).await.map(|p| Got::Pdu(Built::$b(p))) };
    (@try_read $t:ty, $b:ident, $sock:expr) => {
        <$t>::try_read($sock).await.map(|r| match r { Ok(p) => Got::Pdu(Built::$b(p)), Err(h) => Got::TryAlt(h) })
    };
}

macro_rules! fixed_payload {
    ($ty:expr, $h:expr, $sock:expr) => {
        match $ty {
            Ty::SerialNotify => pdu::SerialNotify::read_payload($h, $sock).await.map(|p| Got::Pdu(Built::SerialNotify(p))),
            Ty::SerialQuery => pdu::SerialQuery::read_payload($h, $sock).await.map(|p| Got::Pdu(Built::SerialQuery(p))),
            Ty::ResetQuery => pdu::ResetQuery::read_payload($h, $sock).await.map(|p| Got::Pdu(Built::ResetQuery(p))),
            Ty::CacheResponse => pdu::CacheResponse::read_payload($h, $sock).await.map(|p| Got::Pdu(Built::CacheResponse(p))),
            Ty::V4 => pdu::Ipv4Prefix::read_payload($h, $sock).await.map(|p| Got::Pdu(Built::V4(p))),
            Ty::V6 => pdu::Ipv6Prefix::read_payload($h, $sock).await.map(|p| Got::Pdu(Built::V6(p))),
            Ty::EodV0 => pdu::EndOfDataV0::read_payload($h, $sock).await.map(|p| Got::Pdu(Built::EodV0(p))),
            Ty::EodV1 => pdu::EndOfDataV1::read_payload($h, $sock).await.map(|p| Got::Pdu(Built::EodV1(p))),
            Ty::CacheReset => pdu::CacheReset::read_payload($h, $sock).await.map(|p| Got::Pdu(Built::CacheReset(p))),
            Ty::RouterKey => pdu::RouterKey::read_payload($h, $sock).await.map(|p| Got::Pdu(Built::Key(p))),
            Ty::Aspa => pdu::Aspa::read_payload($h, $sock).await.map(|p| Got::Pdu(Built::Aspa(p))),
            Ty::Error => unreachable!(),
        }
    };
}

async fn run_reader(rd: Rd, sock: &mut ScriptedSock) -> io::Result<Got> {
    match rd {
        Rd::Read(Ty::RouterKey) => pdu::RouterKey::read(sock).await.map(|p| Got::Pdu(Built::Key(p))),
        Rd::Read(Ty::Aspa) => pdu::Aspa::read(sock).await.map(|p| Got::Pdu(Built::Aspa(p))),
        Rd::Read(t) => fixed_read!(read, t, sock),
        Rd::TryRead(t) => fixed_read!(try_read, t, sock),
        Rd::Dispatch(t) => {
            let h = pdu::Header::read(sock).await?;
            if h.pdu() != t.code() { return Ok(Got::NotDispatched(h)) }
            fixed_payload!(t, h, sock)
        }
        Rd::PayloadRead => pdu::Payload::read(sock).await.map(|r| match r {
            Ok(Some(p)) => Got::Payload(p), Ok(None) => Got::PayloadNone, Err(e) => Got::Eod(e) }),
        Rd::EodDispatch => {
            let h = pdu::Header::read(sock).await?;
            if h.pdu() != 7 { return Ok(Got::NotDispatched(h)) }
            pdu::EndOfData::read_payload(h, sock).await.map(Got::Eod)
        }
        Rd::SkipError => {
            let h = pdu::Header::read(sock).await?;
            if h.pdu() != 10 { return Ok(Got::NotDispatched(h)) }
            pdu::Error::skip_payload(h, sock).await.map(|()| Got::Skipped(h))
        }
        Rd::SerialBody => {
            let h = pdu::Header::read(sock).await?;
            if h.pdu() != 1 || h.length() != 12 { return Ok(Got::NotDispatched(h)) }
            pdu::SerialQueryPayload::read(sock).await.map(|p| Got::SerialBody(h, p))
        }
        Rd::DispatchVia(t, hr) => {
            let h = match header_via(hr, sock).await? { Ok(h) => h, Err(got) => return Ok(got) };
            if h.pdu() != t.code() { return Ok(Got::NotDispatched(h)) }
            fixed_payload!(t, h, sock)
        }
        Rd::EodVia(hr) => {
            let h = match header_via(hr, sock).await? { Ok(h) => h, Err(got) => return Ok(got) };
            if h.pdu() != 7 { return Ok(Got::NotDispatched(h)) }
            pdu::EndOfData::read_payload(h, sock).await.map(Got::Eod)
        }
        Rd::SkipVia(hr) => {
            let h = match header_via(hr, sock).await? { Ok(h) => h, Err(got) => return Ok(got) };
            if h.pdu() != 10 { return Ok(Got::NotDispatched(h)) }
            pdu::Error::skip_payload(h, sock).await.map(|()| Got::Skipped(h))
        }
    }
}

/// A header by one of the routes of `Hr`; `Err(got)`: the route itself produced a complete result.
async fn header_via(hr: Hr, sock: &mut ScriptedSock) -> io::Result<Result<pdu::Header, Got>> {
    use tokio::io::AsyncReadExt;
    match hr {
        Hr::AsMut => { let mut h = pdu::Header::default(); sock.read_exact(h.as_mut()).await?; Ok(Ok(h)) }
        Hr::New => {
            let mut b = [0u8; 8]; sock.read_exact(&mut b).await?;
            Ok(Ok(pdu::Header::new(b[0], b[1], u16::from_be_bytes([b[2], b[3]]), u32::from_be_bytes([b[4], b[5], b[6], b[7]]))))
        }
        Hr::TryAlt => Ok(match pdu::SerialNotify::try_read(sock).await? { Ok(p) => Err(Got::Pdu(Built::SerialNotify(p))), Err(h) => Ok(h) }),
    }
}

/// The readers that can consume a PDU of type `t`.
fn readers_for(t: Ty) -> Vec<Rd> {
    let mut v = vec![Rd::Read(t)];
    if t.fixed().is_some() { v.push(Rd::TryRead(t)) }
    v.push(Rd::Dispatch(t));
    if matches!(t, Ty::V4 | Ty::V6 | Ty::RouterKey | Ty::Aspa | Ty::EodV0 | Ty::EodV1) { v.push(Rd::PayloadRead) }
    if matches!(t, Ty::EodV0 | Ty::EodV1) { v.push(Rd::EodDispatch) }
    if t == Ty::SerialQuery { v.push(Rd::SerialBody) }
    for hr in [Hr::AsMut, Hr::New] {
        v.push(Rd::DispatchVia(t, hr));
        if matches!(t, Ty::EodV0 | Ty::EodV1) { v.push(Rd::EodVia(hr)) }
    }
    if t == Ty::Error { v = vec![Rd::SkipError, Rd::SkipVia(Hr::AsMut), Rd::SkipVia(Hr::New), Rd::SkipVia(Hr::TryAlt)] }
    v
}

fn all_readers() -> Vec<Rd> {
    let mut v = Vec::new();
    for t in Ty::FIXED { v.push(Rd::Read(t)); v.push(Rd::TryRead(t)); v.push(Rd::Dispatch(t)) }
    for t in [Ty::RouterKey, Ty::Aspa] { v.push(Rd::Read(t)); v.push(Rd::Dispatch(t)) }
    v.extend([Rd::PayloadRead, Rd::EodDispatch, Rd::SkipError, Rd::SerialBody]);
    for hr in [Hr::AsMut, Hr::New] {
        for t in Ty::FIXED { v.push(Rd::DispatchVia(t, hr)) }
        for t in [Ty::RouterKey, Ty::Aspa] { v.push(Rd::DispatchVia(t, hr)) }
        v.extend([Rd::EodVia(hr), Rd::SkipVia(hr)]);
    }
    v.push(Rd::SkipVia(Hr::TryAlt));
    v
}


//------------ the wire grammar (reference model) ----------------------------

/// What the wire grammar says a reader must do with the octets `s` followed
/// by end of stream.
#[derive(Clone, Copy, Debug, PartialEq, Eq)]
enum Exp {
    /// A complete, well-formed PDU for this reader: it takes exactly n octets.
    Ok(usize),
    /// `try_read` meets an Error PDU header: 8 octets.
    TryAlt,
    /// A dispatching reader whose type does not match: 8 octets, no verdict on the library.
    NotDispatched,
    /// Early end, or wrong type / length / version for this reader: an error
    /// after at most n octets.
    Err(usize),
}

/// Length rule for a PDU of wire type `code` with version `v` announcing `len` octets.
fn length_ok(code: u8, v: u8, len: usize) -> bool {
    match code {
        0 | 1 => len == 12, 2 | 3 | 8 => len == 8, 4 => len == 20, 6 => len == 32,
        7 => match v { 0 => len == 12, 1 | 2 => len == 24, _ => false },
        9 => len >= 32, 11 => len >= 12 && (len - 12) % 4 == 0, 10 => len >= 8,
        _ => false,
    }
}

fn grammar(rd: Rd, s: &[u8]) -> Exp {
    if s.len() < 8 { return Exp::Err(s.len()) }
    let (v, code) = (s[0], s[1]);
    let len = u32::from_be_bytes([s[4], s[5], s[6], s[7]]) as usize;
    let bound = 8usize.max(len.min(s.len()));
    let body = |ok: bool| -> Exp {
        if !ok { Exp::Err(8) } else if s.len() < len { Exp::Err(bound) } else { Exp::Ok(len) }
    };
    // the fixed-layout readers of V0/V1 end-of-data know one layout each
    let fixed_len_ok = |t: Ty| match t.fixed() { Some(n) => len == n, None => length_ok(t.code(), v, len) };
    match rd {
        Rd::Read(t) => if code != t.code() { Exp::Err(8) } else { body(fixed_len_ok(t)) },
        Rd::TryRead(t) => if code == 10 { Exp::TryAlt } else if code != t.code() { Exp::Err(8) } else { body(fixed_len_ok(t)) },
        Rd::Dispatch(t) => if code != t.code() { Exp::NotDispatched } else { body(fixed_len_ok(t)) },
        Rd::PayloadRead => if !matches!(code, 4 | 6 | 7 | 9 | 11) { Exp::Err(8) } else { body(length_ok(code, v, len)) },
        Rd::EodDispatch => if code != 7 { Exp::NotDispatched } else { body(length_ok(7, v, len)) },
        Rd::SkipError => if code != 10 { Exp::NotDispatched } else { body(length_ok(10, v, len)) },
        Rd::SerialBody => if code != 1 || len != 12 { Exp::NotDispatched } else { body(true) },
        // the header's route does not change what the wire grammar demands of the read as a whole
        Rd::DispatchVia(t, _) => grammar(Rd::Dispatch(t), s),
        Rd::EodVia(_) => grammar(Rd::EodDispatch, s),
        Rd::SkipVia(Hr::TryAlt) => if code == 10 { body(length_ok(10, v, len)) } else { match grammar(Rd::TryRead(Ty::SerialNotify), s) { Exp::TryAlt => unreachable!(), e => e } },
        Rd::SkipVia(_) => grammar(Rd::SkipError, s),
    }
}


//------------ executing readers over the scripted socket --------------------

thread_local! {
    static SCHED: RefCell<Sched> = RefCell::new(Sched::new());
}

/// One completed read of a sequence.
#[derive(Clone, Debug)]
struct Step {
    res: Result<Got, String>,
    /// Octets taken from the socket when the read returned.
    consumed: u64,
}

#[derive(Clone, Debug, PartialEq, Eq)]
enum End { Done, Panicked(String), Stuck }

/// Observations of one execution.
#[derive(Clone, Debug)]
struct Run {
    steps: Vec<Step>,
    /// The task was still pending when the script was exhausted and everything was quiet.
    pending_at_quiescence: bool,
    end: End,
    livelock: bool,
    spin: bool,
}

fn err_text(e: &io::Error) -> String { format!("{:?}: {e}", e.kind()) }

/// Runs the readers one after the other on one socket driven by `script`.
/// The sequence stops at the first error (or un-dispatched header).
fn exec(rds: &[Rd], stream: &[u8], script: &[Ev]) -> Run {
    // for the runaway watchdog: which execution this thread is in
    rpki_verif::note_case(|| format!("readers={} stream={} octets starting {} sched={}", rds.iter().map(|r| r.render()).collect::<Vec<_>>().join("+"), stream.len(), rpki_verif::hex(&stream[..stream.len().min(48)]), render_script(script)));
    SCHED.with(|s| s.borrow().run(async {
        let (sock, ctl) = sock_pair();
        let steps: Arc<Mutex<Vec<Step>>> = Arc::new(Mutex::new(Vec::new()));
        let (steps2, ctl2, rds2) = (steps.clone(), ctl.clone(), rds.to_vec());
        let h = tokio::spawn(async move {
            let mut sock = sock;
            for rd in rds2 {
                let r = run_reader(rd, &mut sock).await;
                let stop = !matches!(r, Ok(Got::Pdu(_) | Got::Payload(_) | Got::PayloadNone | Got::Eod(_) | Got::Skipped(_) | Got::SerialBody(..)));
                steps2.lock().unwrap().push(Step { res: r.map_err(|e| err_text(&e)), consumed: ctl2.consumed() });
                if stop { break }
            }
            sock
        });
        let tr = play(&ctl, stream, None, script).await;
        let q = quiesce(&[&ctl]).await;
        let pending = !h.is_finished();
        let end = match join_within(h, HORIZON).await {
            Joined::Done(_sock) => End::Done, Joined::Panicked(m) => End::Panicked(m), Joined::Stuck => End::Stuck,
        };
        let steps = steps.lock().unwrap().clone();
        Run { steps, pending_at_quiescence: pending, end, livelock: ctl.livelock(), spin: tr.spin || q.spin }
    }))
}


/// Observations of one write.
struct WriteRun { res: Option<Result<(), String>>, out: Vec<u8>, writes: u64, end: End, spin: bool }

/// Writes one PDU into the scripted socket under `script` (chunk limits,
/// short first write, vectored support, back-pressure and release).
fn exec_write(built: &Built, via_enum: bool, script: &[Ev]) -> WriteRun {
    SCHED.with(|s| s.borrow().run(async {
        let (sock, ctl) = sock_pair();
        let b = built.clone();
        // the task is polled for the first time at the first Settle: settings before it apply from the start
        let h = tokio::spawn(async move { let mut sock = sock; let r = write_built(&b, via_enum, &mut sock).await; (r.map_err(|e| err_text(&e)), sock) });
        let tr = play(&ctl, &[], None, script).await;
        let q = quiesce(&[&ctl]).await;
        let (end, res) = match join_within(h, HORIZON).await {
            Joined::Done((r, _sock)) => (End::Done, Some(r)), Joined::Panicked(m) => (End::Panicked(m), None), Joined::Stuck => (End::Stuck, None),
        };
        WriteRun { res, out: ctl.output(), writes: ctl.writes(), end, spin: tr.spin || q.spin }
    }))
}


//------------ comparing what was read with what was written -----------------

fn timing_eq(t: Timing, r: u32, y: u32, e: u32) -> bool { t.refresh == r && t.retry == y && t.expire == e }

/// By-value and derived accessors of the variable-length PDUs must agree with
/// the by-reference ones (which `check_fields` compares with the description).
fn accessor_sweep(b: &Built) -> Result<(), String> {
    match b {
        Built::Key(p) => {
            let info = p.clone().into_key_info();
            if info != *p.key_info() { return Err("RouterKey::into_key_info differs from key_info()".into()) }
            if info.clone().into_bytes().as_ref() != p.key_info().as_slice() { return Err("RouterKeyInfo::into_bytes differs from as_slice()".into()) }
        }
        Built::Aspa(p) => {
            let pr = p.clone().into_providers();
            if pr != *p.providers() { return Err("Aspa::into_providers differs from providers()".into()) }
            let n = p.providers().iter().count();
            match rpki_verif::guard(|| p.providers().asn_count()) {
                Ok(c) => if c as usize != n { return Err(format!("ProviderAsns::asn_count() = {c}, iter() yields {n}")) },
                Err(m) => return Err(format!("ProviderAsns::asn_count() panics on a PDU the reader accepted ({n} providers): {m}")),
            }
            if p.providers().is_empty() != (n == 0) || p.providers().len() != 4 * n { return Err("ProviderAsns::len/is_empty disagree with iter()".into()) }
        }
        _ => {}
    }
    Ok(())
}

/// The ways a user sees item and action must agree with each other.
fn item_sweep(p: &pdu::Payload, action: Action, item: &Payload, flags: u8) -> Result<(), String> {
    use rpki::rtr::payload::{Afi, PayloadType};
    if action.is_withdraw() == action.is_announce() || action.is_announce() != (flags & 1 == 1)
        || Action::from_flags(action.into_flags()) != action || action != Action::from_flags(flags) {
        return Err(format!("Action accessors disagree for flags {flags:#x}: {action:?}"))
    }
    let ty = item.payload_type();
    let by_accessor = (item.to_origin().is_some(), item.as_router_key().is_some(), item.as_aspa().is_some());
    let by_type = (ty == PayloadType::Origin, ty == PayloadType::RouterKey, ty == PayloadType::Aspa);
    let by_pdu = (matches!(p, pdu::Payload::V4(_) | pdu::Payload::V6(_)), matches!(p, pdu::Payload::RouterKey(_)), matches!(p, pdu::Payload::Aspa(_)));
    if by_accessor != by_type || by_type != by_pdu { return Err(format!("payload_type() {ty:?} disagrees with the variant accessors / the PDU type")) }
    if let Some(o) = item.to_origin() {
        let v4 = matches!(p, pdu::Payload::V4(_));
        if o.is_v4() != v4 || o.prefix.addr().is_ipv4() != v4 { return Err(format!("RouteOrigin::is_v4() = {} for a type-{} PDU", o.is_v4(), if v4 { 4 } else { 6 })) }
        let afi = if o.is_v4() { Afi::ipv4() } else { Afi::ipv6() };
        if afi.is_ipv4() != v4 || afi.is_ipv6() == v4 || Afi::from_u8(afi.into_u8()) != afi { return Err("Afi accessors disagree with RouteOrigin::is_v4".into()) }
    }
    if let Some(a) = item.as_aspa() {
        if a.key() != a.customer || a.withdraw().key() != a.key() || !a.withdraw().providers.is_empty() { return Err("Aspa::key / withdraw disagree with customer".into()) }
    }
    Ok(())
}

/// Accessor-level comparison of a read value with the description it was built from.
fn check_fields(val: &Val, got: &Got) -> Result<(), String> {
    // every accessor below is library code: a panic in one of them is a finding, not a crash of the explorer
    match rpki_verif::guard(|| check_fields_unguarded(val, got)) {
        Ok(r) => r,
        Err(p) => Err(format!("an accessor of the value read back panics: {p}")),
    }
}

fn check_fields_unguarded(val: &Val, got: &Got) -> Result<(), String> {
    let bad = |what: &str| Err(format!("{what} differs: read {got:?}"));
    match (val, got) {
        (_, Got::Pdu(b)) => {
            if *b != val.build() { return bad("value (library equality)") }
            accessor_sweep(b)?;
            match (val, b) {
                (Val::SerialNotify { v, session, .. }, Built::SerialNotify(p)) => if p.version() != *v || p.session() != *session { return bad("version/session") },
                (Val::SerialQuery { v, session, .. }, Built::SerialQuery(p)) => if p.version() != *v || p.session() != *session { return bad("version/session") },
                (Val::ResetQuery { v }, Built::ResetQuery(p)) => if p.version() != *v { return bad("version") },
                (Val::CacheResponse { v, session }, Built::CacheResponse(p)) => if p.version() != *v || p.session() != *session { return bad("version/session") },
                (Val::CacheReset { v }, Built::CacheReset(p)) => if p.version() != *v { return bad("version") },
                (Val::V4 { v, flags, plen, mlen, addr, asn }, Built::V4(p)) => if p.version() != *v || p.flags() != *flags || p.prefix_len() != *plen
                    || p.max_len() != *mlen || u32::from(p.prefix()) != *addr || p.asn().into_u32() != *asn { return bad("IPv4 prefix fields") },
                (Val::V6 { v, flags, plen, mlen, addr, asn }, Built::V6(p)) => if p.version() != *v || p.flags() != *flags || p.prefix_len() != *plen
                    || p.max_len() != *mlen || u128::from(p.prefix()) != *addr || p.asn().into_u32() != *asn { return bad("IPv6 prefix fields") },
                (Val::Key { v, flags, ski, asn, info }, Built::Key(p)) => if p.version() != *v || p.flags() != *flags || p.key_identifier() != *ski
                    || p.asn().into_u32() != *asn || p.key_info().as_slice() != info.as_slice() || p.size() as usize != 32 + info.len() { return bad("router key fields") },
                (Val::Aspa { v, flags, customer, providers }, Built::Aspa(p)) => if p.version() != *v || p.flags() != *flags || p.customer().into_u32() != *customer
                    || !p.providers().iter().map(|a| a.into_u32()).eq(providers.iter().copied()) || p.size() as usize != 12 + 4 * providers.len() { return bad("ASPA fields") },
                (Val::EodV0 { session, serial }, Built::EodV0(p)) => if p.version() != 0 || p.session() != *session || p.serial().0 != *serial { return bad("end-of-data fields") },
                (Val::EodV1 { v, session, serial, refresh, retry, expire }, Built::EodV1(p)) => if p.version() != *v || p.session() != *session
                    || p.serial().0 != *serial || !timing_eq(p.timing(), *refresh, *retry, *expire) { return bad("end-of-data fields") },
                _ => return bad("PDU type"),
            }
            Ok(())
        }
        (Val::EodV0 { session, serial }, Got::Eod(e)) => {
            if !matches!(e, pdu::EndOfData::V0(_)) || e.version() != 0 || e.session() != *session || e.serial().0 != *serial
                || e.timing().is_some() || e.state().session() != *session { return bad("end-of-data (v0)") }
            Ok(())
        }
        (Val::EodV1 { v, session, serial, refresh, retry, expire }, Got::Eod(e)) => {
            if !matches!(e, pdu::EndOfData::V1(_)) || e.version() != *v || e.session() != *session || e.serial().0 != *serial
                || !e.timing().map(|t| timing_eq(t, *refresh, *retry, *expire)).unwrap_or(false) { return bad("end-of-data (v1)") }
            Ok(())
        }
        (_, Got::Payload(p)) => {
            let inner = match p {
                pdu::Payload::V4(x) => Got::Pdu(Built::V4(*x)), pdu::Payload::V6(x) => Got::Pdu(Built::V6(*x)),
                pdu::Payload::RouterKey(x) => Got::Pdu(Built::Key(x.clone())), pdu::Payload::Aspa(x) => Got::Pdu(Built::Aspa(x.clone())),
                _ => return bad("payload variant"),
            };
            check_fields_unguarded(val, &inner)?;
            let flags = match val { Val::V4 { flags, .. } | Val::V6 { flags, .. } | Val::Key { flags, .. } | Val::Aspa { flags, .. } => *flags, _ => return bad("payload type") };
            if p.version() != val.version() || p.flags() != flags { return bad("payload version/flags") }
            // item and action as the client will see them
            if let Some((action, item)) = expected_payload(val) {
                match p.to_payload() {
                    Ok((a, it)) => {
                        item_sweep(p, a, &it, flags)?;
                        if a != action { return Err(format!("action differs: {a:?} for flags {flags:#x}")) }
                        let same = it == item;
                        // a withdrawn ASPA is reported by customer only (documented: empty provider set)
                        let aspa_withdraw = match (&it, &item) {
                            (Payload::Aspa(x), Payload::Aspa(y)) => action == Action::Withdraw && x.customer == y.customer && x.providers.is_empty(),
                            _ => false,
                        };
                        if !same && !aspa_withdraw { return Err(format!("item differs: to_payload gave {it:?}, written {item:?}")) }
                    }
                    Err(_) => return Err("to_payload rejects an item the library wrote".into()),
                }
            }
            Ok(())
        }
        (Val::Error { v, code, pdu, text }, Got::Skipped(h)) => {
            if h.version() != *v || h.session() != *code || h.length() as usize != 16 + pdu.len() + text.len() { return bad("error header") }
            Ok(())
        }
        (Val::SerialQuery { v, session, serial }, Got::SerialBody(h, p)) => {
            if h.version() != *v || h.session() != *session || p.serial().0 != *serial { return bad("serial query fields") }
            Ok(())
        }
        _ => bad("kind of result"),
    }
}


//------------ the client as a reader ----------------------------------------

#[derive(Default)]
struct Tgt { reset: bool, applied: Vec<(bool, Vec<(Action, Payload)>, (u32, u32, u32))>, fail_with: Option<PayloadError> }

/// Which of the client's entry points runs the exchange.
#[derive(Clone, Copy, Debug, PartialEq, Eq)]
enum How { Step, New, Run }

/// How the client is driven: entry point, an error the target's `apply`
/// returns (the client then reports it with `send_error` itself), an error
/// reported through `Client::send_error` after the step.
#[derive(Clone, Copy, Debug)]
struct CMode { how: How, fail: Option<PayloadError>, send: Option<PayloadError> }

impl CMode { const STEP: CMode = CMode { how: How::Step, fail: None, send: None }; }

impl PayloadTarget for Tgt {
    type Update = Vec<(Action, Payload)>;
    fn start(&mut self, reset: bool) -> Self::Update { self.reset = reset; Vec::new() }
    fn apply(&mut self, update: Self::Update, timing: Timing) -> Result<(), PayloadError> {
        if let Some(e) = self.fail_with { return Err(e) }
        self.applied.push((self.reset, update, (timing.refresh, timing.retry, timing.expire)));
        Ok(())
    }
}

#[derive(Clone, Debug)]
struct ClientRun {
    res: Result<(), String>,
    applied: Vec<(bool, Vec<(Action, Payload)>, (u32, u32, u32))>,
    state: Option<(u16, u32)>,
    /// What the client wrote (queries, error reports).
    sent: Vec<u8>,
    consumed: u64,
    pending_at_quiescence: bool,
    end: End,
    livelock: bool,
    spin: bool,
    /// Simulated seconds until the step returned.
    sim_secs: u64,
}

/// One `Client::step` (reset query if `state` is None, else serial query)
/// against the scripted reply stream.
fn exec_client(init_v: u8, state: Option<(u16, u32)>, stream: &[u8], script: &[Ev]) -> ClientRun {
    exec_client_mode(CMode::STEP, init_v, state, stream, script)
}

/// The same through `Client::new` (initial version 2) or `Client::run`
/// (steps until the stream ends), with optional error reporting.
fn exec_client_mode(mode: CMode, init_v: u8, state: Option<(u16, u32)>, stream: &[u8], script: &[Ev]) -> ClientRun {
    SCHED.with(|s| s.borrow().run(async {
        let (sock, ctl) = sock_pair();
        let t0 = tokio::time::Instant::now();
        let h = tokio::spawn(async move {
            let tgt = Tgt { fail_with: mode.fail, ..Default::default() };
            let mut client = if mode.how == How::New { Client::new(sock, tgt, state.map(|(s, n)| st(s, n))) }
                else { Client::with_initial_version(init_v, sock, tgt, state.map(|(s, n)| st(s, n))) };
            let mut res = if mode.how == How::Run { client.run().await } else { client.step().await }.map_err(|e| err_text(&e));
            if let (Ok(()), Some(e)) = (&res, mode.send) { res = client.send_error(e).await.map_err(|e| err_text(&e)) }
            let state = client.state().map(|s| (s.session(), s.serial().0));
            (res, std::mem::take(&mut client.target_mut().applied), state, rtr_sched::sim_elapsed(t0).as_secs())
        });
        let tr = play(&ctl, stream, None, script).await;
        let q = quiesce(&[&ctl]).await;
        let pending = !h.is_finished();
        let (end, res, applied, state, secs) = match join_within(h, HORIZON).await {
            Joined::Done((res, applied, state, secs)) => (End::Done, res, applied, state, secs),
            Joined::Panicked(m) => (End::Panicked(m), Err("panic".into()), vec![], None, 0),
            Joined::Stuck => (End::Stuck, Err("stuck".into()), vec![], None, 0),
        };
        ClientRun { res, applied, state, sent: ctl.output(), consumed: ctl.consumed(), pending_at_quiescence: pending, end,
            livelock: ctl.livelock(), spin: tr.spin || q.spin, sim_secs: secs }
    }))
}

/// Is the reply stream `s` (followed by end of stream) something a client step must reject?
#[derive(Clone, Copy, Debug, PartialEq, Eq)]
enum CExp { WellFormed, Malformed(&'static str), Unjudged }

/// Wire grammar of a reply as seen by a client that has not negotiated a
/// version yet: Cache Response, payload PDUs, End of Data, all of one version
/// <= 2; before that possibly an Error PDU with code 4 and a lower version
/// (once), or, for a serial query, a Cache Reset followed by the reply to the
/// reset query.
fn client_grammar(serial_query: bool, s: &[u8]) -> CExp {
    let mut p = 0usize;
    let mut negotiated: Option<u8> = None;
    let mut serial_query = serial_query;
    let mut unjudged = false;
    // first reply
    let v = loop {
        if s.len() - p < 8 { return CExp::Malformed("ends inside the first header") }
        let (v, code) = (s[p], s[p + 1]);
        let ecode = u16::from_be_bytes([s[p + 2], s[p + 3]]);
        let len = u32::from_be_bytes([s[p + 4], s[p + 5], s[p + 6], s[p + 7]]) as usize;
        match code {
            3 => { if len != 8 { return CExp::Malformed("cache response length") } p += 8; break v }
            8 if serial_query => { if len != 8 { return CExp::Malformed("cache reset length") } p += 8; serial_query = false; }
            10 if ecode == 4 => {
                if len < 8 { return CExp::Malformed("error PDU length") }
                if s.len() - p < len { return CExp::Malformed("ends inside the error PDU") }
                if negotiated.is_some() { return CExp::Malformed("second version error") }
                if v >= 2 { return CExp::Malformed("version error naming a version >= 2") }
                negotiated = Some(v); p += len;
            }
            10 => return CExp::Malformed("error report"),
            _ => return CExp::Malformed("wrong type for a first reply"),
        }
    };
    match negotiated { Some(n) if n != v => return CExp::Malformed("version differs from the negotiated one"), None if v > 2 => return CExp::Malformed("version > 2"), _ => {} }
    loop {
        if s.len() - p < 8 { return CExp::Malformed("ends before end of data") }
        let (pv, code) = (s[p], s[p + 1]);
        let len = u32::from_be_bytes([s[p + 4], s[p + 5], s[p + 6], s[p + 7]]) as usize;
        if !matches!(code, 4 | 6 | 7 | 9 | 11) { return CExp::Malformed("wrong type in the payload sequence") }
        if !length_ok(code, pv, len) { return CExp::Malformed("wrong length") }
        if s.len() - p < len { return CExp::Malformed("ends inside a PDU") }
        if pv != v { return CExp::Malformed("version changes inside the reply") }
        match code {
            4 => { let (pl, ml) = (s[p + 9], s[p + 10]); if pl > 32 || ml > 32 || pl > ml { unjudged = true } }
            6 => { let (pl, ml) = (s[p + 9], s[p + 10]); if pl > 128 || ml > 128 || pl > ml { unjudged = true } }
            7 => return if unjudged { CExp::Unjudged } else { CExp::WellFormed },
            _ => {}
        }
        p += len;
    }
}


//------------ bookkeeping for parallel jobs ---------------------------------

struct Fail { oracle: &'static str, witness: String, detail: String }

/// Per-job accumulator; jobs are reported in job order after the parallel
/// phase so that what gets printed does not depend on thread timing.
#[derive(Default)]
struct Acc {
    fails: Vec<Fail>,
    kept: BTreeMap<&'static str, u32>,
    more: BTreeMap<&'static str, u64>,
    oc: BTreeMap<&'static str, u64>,
    evals: u64,
    nontrivial: u64,
}

impl Acc {
    fn fail(&mut self, oracle: &'static str, witness: impl FnOnce() -> String, detail: String) {
        let k = self.kept.entry(oracle).or_insert(0);
        if *k < 12 { *k += 1; self.fails.push(Fail { oracle, witness: witness(), detail }) }
        else { *self.more.entry(oracle).or_insert(0) += 1 }
    }
    fn class(&mut self, name: &'static str) { *self.oc.entry(name).or_insert(0) += 1 }
}

fn report(ctx: &Ctx, sp: &Space, accs: Vec<Acc>) {
    for a in accs {
        sp.evals(a.evals); sp.nontrivial(a.nontrivial); sp.merge_outcomes(&a.oc);
        let mut last: BTreeMap<&'static str, String> = BTreeMap::new();
        for f in a.fails { last.insert(f.oracle, f.witness.clone()); ctx.fail(f.oracle, f.witness, f.detail) }
        for (oracle, n) in a.more {
            let w = last.get(oracle).cloned().unwrap_or_default();
            for i in 0..n { ctx.fail(oracle, format!("{w} (+{} more of the same job)", i + 1), "") }
        }
    }
}

fn show(b: &[u8]) -> String {
    if b.len() <= 72 { hex(b) } else { format!("{}..({} octets)", hex(&b[..40]), b.len()) }
}

/// Cut positions used for fragmentation: every position for PDUs of up to 64
/// octets; otherwise the first 48, the last 8 and the neighbourhood of the
/// 1024-octet buffer boundaries of `skip_payload`.
fn cut_positions(len: usize) -> Vec<usize> {
    if len <= 64 { return (1..len).collect() }
    let mut v: Vec<usize> = (1..=48).collect();
    v.extend(len - 8..len);
    for b in [1024usize, 2048] { for d in [0usize, 8] { for k in [b + d - 1, b + d, b + d + 1] { v.push(k) } } }
    v.retain(|p| *p >= 1 && *p < len);
    v.sort(); v.dedup(); v
}

/// Scripts delivering `len` octets in <= max_cuts+1 chunks, each followed by a run to quiescence.
fn fragmentations(len: usize, max_cuts: usize) -> Vec<Vec<Ev>> {
    let pos = cut_positions(len);
    let mut out = vec![vec![Ev::Deliver(len), Ev::Settle]];
    if max_cuts >= 1 { for &a in &pos { out.push(vec![Ev::Deliver(a), Ev::Settle, Ev::Deliver(len - a), Ev::Settle]) } }
    if max_cuts >= 2 {
        for (i, &a) in pos.iter().enumerate() { for &b in &pos[i + 1..] {
            out.push(vec![Ev::Deliver(a), Ev::Settle, Ev::Deliver(b - a), Ev::Settle, Ev::Deliver(len - b), Ev::Settle])
        } }
    }
    out
}

fn run_level(acc: &mut Acc, prefix: &'static str, wit: &dyn Fn() -> String, pending: bool, end: &End, livelock: bool, spin: bool, closed: bool) -> bool {
    let mut ok = true;
    let name = |s: &'static str| -> &'static str {
        match (prefix, s) {
            ("rt", "panic") => "C07.rt.no_panic", ("rt", _) => "C07.rt.completes",
            ("fault", "panic") => "C07.fault.no_panic", ("fault", "spin") => "C07.fault.no_spin", ("fault", _) => "C07.fault.no_hang",
            ("client", "panic") => "C07.client.no_panic", ("client", "spin") => "C07.client.no_spin", (_, _) => "C07.client.no_hang",
        }
    };
    if let End::Panicked(m) = end { acc.fail(name("panic"), wit, m.clone()); ok = false }
    if livelock { acc.fail(name("spin"), wit, "read polled > 1000 times after end of stream was reported, inside one poll of the future (livelock guard)".into()); ok = false }
    if spin { acc.fail(name("spin"), wit, "no quiescence: the task keeps polling (spin)".into()); ok = false }
    if *end == End::Stuck { acc.fail(name("hang"), wit, format!("still pending after {} simulated seconds{}", HORIZON.as_secs(), if closed { " although the peer has closed" } else { " although every octet has arrived" })); ok = false }
    else if pending && prefix != "client" && !matches!(end, End::Panicked(_)) { acc.fail(name("hang"), wit, "pending at quiescence with the script exhausted".into()); ok = false }
    ok
}


//------------ value domains -------------------------------------------------

const SESSIONS: [u16; 5] = [0, 1, 0x7FFF, 0x8000, 0xFFFF];
const U32S: [u32; 5] = [0, 1, 0x7FFF_FFFF, 0x8000_0000, 0xFFFF_FFFF];

fn dedup<T: PartialEq>(v: Vec<T>) -> Vec<T> { let mut o: Vec<T> = Vec::new(); for x in v { if !o.contains(&x) { o.push(x) } } o }

fn values(thorough: bool) -> Vec<Val> {
    // both tiers use the full domains; the tiers differ in the fragmentation depth of long PDUs
    let mut out = Vec::new();
    let vers = [0u8, 1, 2];
    let flags: &[u8] = if thorough { &[0, 1, 0xFE, 0xFF] } else { &[0, 1] };
    let asns: &[u32] = if thorough { &[0, 1, 0xFFFF_FFFF] } else { &[0, 0xFFFF_FFFF] };
    // control PDUs
    for &v in &vers {
        out.push(Val::ResetQuery { v }); out.push(Val::CacheReset { v });
        for &session in &SESSIONS {
            out.push(Val::CacheResponse { v, session });
            for &serial in &U32S { out.push(Val::SerialNotify { v, session, serial }); out.push(Val::SerialQuery { v, session, serial }); }
        }
    }
    for &session in &SESSIONS { for &serial in &U32S { out.push(Val::EodV0 { session, serial }) } }
    let tdom: &[u32] = if thorough { &U32S } else { &[0, 0x8000_0000, 0xFFFF_FFFF] };
    for v in [1u8, 2] {
        // every timing triple on the diagonal of (session, serial); every (session, serial) with diagonal timing
        for i in 0..5 { for &refresh in tdom { for &retry in tdom { for &expire in tdom {
            if !thorough && i % 2 == 1 { continue }
            out.push(Val::EodV1 { v, session: SESSIONS[i], serial: U32S[i], refresh, retry, expire });
        } } } }
        for &session in &SESSIONS { for &serial in &U32S { for j in 0..5 {
            if !thorough && j % 2 == 1 { continue }
            out.push(Val::EodV1 { v, session, serial, refresh: U32S[j], retry: U32S[(j + 1) % 5], expire: U32S[(j + 2) % 5] });
        } } }
    }
    // origins
    for &v in &vers { for &fl in flags { for &asn in asns {
        for plen in [0u8, 1, 31, 32] {
            let mask: u32 = if plen == 0 { 0 } else { u32::MAX << (32 - plen) };
            for mlen in dedup(vec![plen, 32, (plen + 32) / 2]) {
                for addr in dedup(vec![mask, 0, 0xAAAA_AAAA & mask]) { out.push(Val::V4 { v, flags: fl, plen, mlen, addr, asn }) }
            }
        }
        for plen in [0u8, 1, 127, 128] {
            let mask: u128 = if plen == 0 { 0 } else { u128::MAX << (128 - plen) };
            for mlen in dedup(vec![plen, 128, ((plen as u16 + 128) / 2) as u8]) {
                for addr in dedup(vec![mask, 0, 0xAAAA_AAAA_AAAA_AAAA_AAAA_AAAA_AAAA_AAAA & mask]) { out.push(Val::V6 { v, flags: fl, plen, mlen, addr, asn }) }
            }
        }
    } } }
    // router keys
    let mut seq = [0u8; 20]; for (i, b) in seq.iter_mut().enumerate() { *b = i as u8 + 1 }
    let skis: Vec<[u8; 20]> = if thorough { vec![[0; 20], [0xFF; 20], seq] } else { vec![[0xFF; 20], seq] };
    for &v in &vers { for &fl in flags { for &asn in asns { for ski in &skis { for n in [0usize, 1, 91, 255, 256, 1023, 1024, 1025] {
        if n > 256 && (fl > 1 || asn == 1) { continue }
        let info: Vec<u8> = (0..n).map(|i| (i as u8) ^ 0xA5).collect();
        out.push(Val::Key { v, flags: fl, ski: *ski, asn, info });
    } } } } }
    // the length of the key info and the number of providers: every value of an initial range,
    // then the neighbourhoods of the powers of two up to the maxima (quick stops at 65537 octets)
    let mut key_lens: Vec<usize> = (0..=300).collect();
    for k in [512usize, 1024, 2048, 4096, 65536] { key_lens.extend([k - 1, k, k + 1]) }
    if thorough { for k in [8192usize, 16384, 32768, 1 << 17, 1 << 18, 1 << 20] { key_lens.extend([k - 1, k, k + 1]) } }
    for n in key_lens {
        out.push(Val::Key { v: 1 + (n % 2) as u8, flags: (n % 2 == 0) as u8, ski: seq, asn: 0x00AB_CDEF, info: (0..n).map(|i| (i as u8).wrapping_mul(31) ^ 0x5A).collect() });
    }
    let mut counts: Vec<usize> = (0..=80).collect();
    for k in [128usize, 256, 512, 1024, 2048, 4096, 8192] { counts.extend([k - 1, k, k + 1]) }
    counts.extend([16379, 16380]);
    for n in counts {
        out.push(Val::Aspa { v: 2, flags: (n % 2 == 0) as u8, customer: 0x00AB_CDEF, providers: (0..n as u32).map(|i| i.wrapping_mul(0x0101_0101) ^ 0x8000_0001).collect() });
    }
    // the lengths of the two fields of an error report
    let mut elens: Vec<usize> = (0..=40).collect();
    for k in [64usize, 128, 256, 512, 4096, 65536] { elens.extend([k - 1, k, k + 1]) }
    for n in elens {
        out.push(Val::Error { v: 1, code: 3, pdu: vec![], text: (0..n).map(|i| (i as u8) | 0x80).collect() });
        out.push(Val::Error { v: 2, code: 3, pdu: (0..n).map(|i| i as u8).collect(), text: b"x".to_vec() });
    }
    // ASPA
    for &v in &vers { for &fl in flags { for &customer in asns { for n in [0usize, 1, 2, 255, 256, 16380] {
        for base in if thorough { vec![0u32, 0xFFFF_0000] } else { vec![0xFFFF_0000u32] } {
            let providers: Vec<u32> = (0..n).map(|i| base + i as u32).collect();
            out.push(Val::Aspa { v, flags: fl, customer, providers });
            if n == 0 { break }
        }
    } } } }
    // error reports: lengths around skip_payload's 1024-octet buffer ...
    for &v in &vers { for code in [0u16, 4, 0xFFFF] {
        for (pl, tl) in [(12usize, 20usize), (0, 1015), (0, 1016), (0, 1017), (12, 2028), (12, 2029), (1500, 1500)] {
            if !thorough && code == 0xFFFF && pl + tl > 100 { continue }
            out.push(Val::Error { v, code, pdu: (0..pl).map(|i| i as u8).collect(), text: (0..tl).map(|i| b'a' + (i % 26) as u8).collect() });
        }
    } }
    // ... and contents of every kind in both variable fields: empty, ASCII,
    // valid multi-byte UTF-8, invalid UTF-8 (lone continuation octet, 0xFF,
    // sequences cut short, Latin-1), NUL, and 1023/1024/1025 non-text octets
    let contents: Vec<Vec<u8>> = vec![
        vec![], b"abc".to_vec(), "\u{e9}\u{20ac}\u{1f600}".as_bytes().to_vec(),
        vec![0x80], vec![0xFF], vec![0xE2, 0x82], vec![0xF0, 0x9F, 0x98], b"caf\xe9 au lait".to_vec(), vec![0], vec![b'a', 0, b'b'],
        vec![0xFF; 1023], vec![0x80; 1024], (0..1025).map(|i| (i % 256) as u8).collect(),
    ];
    let embedded: Vec<Vec<u8>> = vec![vec![], vec![1, 2, 0, 0, 0, 0, 0, 8], vec![0xFF; 8]];
    for &v in &vers { for code in [0u16, 4, 0xFFFF] {
        if !thorough && code == 0xFFFF { continue }
        for text in &contents { for pdu in &embedded { out.push(Val::Error { v, code, pdu: pdu.clone(), text: text.clone() }) } }
        for pdu in &contents { for text in [&b""[..], &b"diag"[..]] {
            if pdu.is_empty() || embedded.contains(pdu) { continue }
            out.push(Val::Error { v, code, pdu: pdu.clone(), text: text.to_vec() })
        } }
    } }
    out
}

/// Seed PDUs for the fault spaces: one of every type in every version.
fn seeds() -> Vec<Val> {
    let mut out = Vec::new();
    let mut seq = [0u8; 20]; for (i, b) in seq.iter_mut().enumerate() { *b = i as u8 + 1 }
    for v in [0u8, 1, 2] {
        out.push(Val::SerialNotify { v, session: 0x1234, serial: 0xDEAD_BEEF });
        out.push(Val::SerialQuery { v, session: 0x1234, serial: 0xDEAD_BEEF });
        out.push(Val::ResetQuery { v });
        out.push(Val::CacheResponse { v, session: 0x1234 });
        out.push(Val::V4 { v, flags: 1, plen: 24, mlen: 28, addr: 0xC000_0200, asn: 0x1000F });
        out.push(Val::V6 { v, flags: 1, plen: 32, mlen: 48, addr: 0x2001_0db8u128 << 96, asn: 0x1000F });
        out.push(Val::Key { v, flags: 1, ski: seq, asn: 0x1000F, info: vec![21, 22, 23, 24, 25] });
        out.push(Val::Aspa { v, flags: 1, customer: 0x1000F, providers: vec![0x1000D, 0x1000E] });
        if v == 0 { out.push(Val::EodV0 { session: 0x1234, serial: 0xDEAD_BEEF }) }
        else { out.push(Val::EodV1 { v, session: 0x1234, serial: 0xDEAD_BEEF, refresh: 3600, retry: 600, expire: 7200 }) }
        out.push(Val::CacheReset { v });
        out.push(Val::Error { v, code: 2, pdu: vec![v, 2, 0, 0, 0, 0, 0, 8, 1, 2, 3, 4], text: b"nodat".to_vec() });
    }
    out
}

/// Two long seeds: an Error PDU whose body crosses `skip_payload`'s buffer and a router key with a real-size key.
fn long_seeds() -> Vec<Val> {
    vec![
        Val::Error { v: 1, code: 4, pdu: vec![2, 2, 0, 0, 0, 0, 0, 8], text: (0..1100).map(|i| b'a' + (i % 26) as u8).collect() },
        Val::Key { v: 1, flags: 1, ski: [7; 20], asn: 65000, info: (0..91).map(|i| i as u8).collect() },
    ]
}

/// Single header-field corruptions of the PDU at the start of `s`:
/// (description, offset, replacement octets).
fn corruptions(s: &[u8]) -> Vec<(String, Vec<u8>)> {
    let len = u32::from_be_bytes([s[4], s[5], s[6], s[7]]);
    let mut out = Vec::new();
    let mut put = |what: String, off: usize, rep: &[u8]| {
        if s[off..off + rep.len()] == *rep { return }
        let mut c = s.to_vec(); c[off..off + rep.len()].copy_from_slice(rep); out.push((what, c));
    };
    for v in [0u8, 1, 2, 3, 0x7F, 0xFF] { put(format!("version:={v}"), 0, &[v]) }
    for t in (0u8..=12).chain([0xFF]) { put(format!("type:={t}"), 1, &[t]) }
    for off in [2usize, 3] { for x in [0u8, 1, 0xFF] { put(format!("octet{off}:={x:#x}"), off, &[x]) } }
    for l in [0u32, 7, 8, len.wrapping_sub(1), len + 1, len + 4, 12, 20, 24, 32, 0xFFFF, 0x1_0000, 0x8000_0000, 0xFFFF_FFFF] {
        put(format!("length:={l:#x}"), 4, &l.to_be_bytes())
    }
    for off in 4usize..8 { for x in [0u8, 1, 0x80, 0xFF] { put(format!("octet{off}:={x:#x}"), off, &[x]) } }
    out
}

fn vm_peak_kb() -> u64 {
    std::fs::read_to_string("/proc/self/status").ok().and_then(|s| {
        s.lines().find(|l| l.starts_with("VmPeak:")).and_then(|l| l.split_whitespace().nth(1).and_then(|x| x.parse().ok()))
    }).unwrap_or(0)
}


//------------ judging -------------------------------------------------------

/// With --replay only the case whose witness is the recorded one is executed.
static REPLAY: std::sync::OnceLock<Option<String>> = std::sync::OnceLock::new();

fn skip_for_replay(script: &[Ev], wit: &dyn Fn() -> String) -> bool {
    match REPLAY.get().and_then(|r| r.as_ref()) {
        // every witness ends with the schedule: a cheap first test
        Some(r) => !r.ends_with(&format!("sched={}", render_script(script))) || wit() != *r,
        None => false,
    }
}

/// Round trip of one value through one reader under one fragmentation.
fn judge_roundtrip(acc: &mut Acc, val: &Val, wire: &[u8], rd: Rd, script: &[Ev]) {
    let wit = || format!("pdu={} bytes={} reader={} sched={}", val.render(), show(wire), rd.render(), render_script(script));
    if skip_for_replay(script, &wit) { return }
    // an Error PDU is skipped; a sentinel after it shows where the reader stopped
    let sentinel = [9u8, 2, 0, 0, 0, 0, 0, 8];
    let (rds, stream): (Vec<Rd>, Vec<u8>) = if rd == Rd::SkipError {
        (vec![Rd::SkipError, Rd::Read(Ty::ResetQuery)], [wire, &sentinel[..]].concat())
    } else { (vec![rd], wire.to_vec()) };
    let script: Vec<Ev> = if rd == Rd::SkipError {
        let mut s = script.to_vec();
        // the sentinel travels with the last chunk
        if let Some(Ev::Deliver(k)) = s.iter_mut().rev().find(|e| matches!(e, Ev::Deliver(_))) { *k += 8 }
        s
    } else { script.to_vec() };
    let run = exec(&rds, &stream, &script);
    acc.evals += 1;
    if script.len() > 2 { acc.nontrivial += 1 }
    if !run_level(acc, "rt", &wit, run.pending_at_quiescence, &run.end, run.livelock, run.spin, false) { acc.class("violation"); return }
    let Some(step) = run.steps.first() else { acc.fail("C07.rt.completes", wit, "no read completed".into()); acc.class("violation"); return };
    match &step.res {
        Err(e) => { acc.fail("C07.rt.read", wit, format!("reading back what the library wrote fails: {e}")); acc.class("violation") }
        Ok(got) => {
            let mut ok = true;
            if let Err(d) = check_fields(val, got) { acc.fail("C07.rt.same_value", wit, d); ok = false }
            if step.consumed != wire.len() as u64 { acc.fail("C07.rt.consumed", wit, format!("{} octets consumed for a PDU of {}", step.consumed, wire.len())); ok = false }
            if rd == Rd::SkipError {
                match run.steps.get(1) {
                    Some(Step { res: Ok(Got::Pdu(Built::ResetQuery(p))), consumed }) if p.version() == 9 && *consumed == stream.len() as u64 => {}
                    other => { acc.fail("C07.rt.consumed", wit, format!("the PDU after the skipped error report is not read in frame: {other:?}")); ok = false }
                }
            }
            acc.class(if !ok { "violation" } else { match got {
                Got::Pdu(_) => "read-back:pdu", Got::Payload(_) => "read-back:payload", Got::Eod(_) => "read-back:end-of-data",
                Got::Skipped(_) => "read-back:skipped-error", Got::SerialBody(..) => "read-back:header+serial", _ => "read-back:other" } });
        }
    }
}

/// The scripts of the writer dimension for a PDU of `len` octets.
fn writer_scripts(len: usize) -> Vec<Vec<Ev>> {
    let mut out = Vec::new();
    for vect in [false, true] {
        let pre: Vec<Ev> = if vect { vec![Ev::Vectored] } else { vec![] };
        let mk = |evs: &[Ev]| -> Vec<Ev> { let mut v = pre.clone(); v.extend_from_slice(evs); v };
        out.push(mk(&[Ev::Settle]));
        for c in [1usize, 2, 7, 11, 12, 31, 32, 33] {
            out.push(mk(&[Ev::WriteChunk(c), Ev::Settle]));
            out.push(mk(&[Ev::ShortWrite(c), Ev::Settle]));
        }
        for k in dedup(vec![0usize, 1, 7, 11, 12, 31, 32, 33, len - 1]) {
            if k < len { out.push(mk(&[Ev::WriteBudget(k), Ev::Settle, Ev::Unblock, Ev::Settle])) }
        }
    }
    out
}

/// One PDU written into the scripted socket: the octets that arrive must be
/// the ones a Vec receives, their number must be the length field, and they
/// must read back as the value.
fn judge_writer(acc: &mut Acc, val: &Val, built: &Built, wire: &[u8], via_enum: bool, script: &[Ev]) {
    let wit = || format!("pdu={} writer={} sched={}", val.render(), if via_enum { "enum::write" } else { "write" }, render_script(script));
    if skip_for_replay(script, &wit) { return }
    let run = exec_write(built, via_enum, script);
    acc.evals += 1;
    if run.writes >= 2 { acc.nontrivial += 1 }
    let mut ok = true;
    match (&run.end, &run.res) {
        (End::Panicked(m), _) => { acc.fail("C07.rt.no_panic", &wit, m.clone()); ok = false }
        (End::Stuck, _) => { acc.fail("C07.rt.writer_completes", &wit, "write still pending after the back-pressure was lifted".into()); ok = false }
        (_, Some(Err(e))) => { acc.fail("C07.rt.writer_completes", &wit, format!("write fails on a healthy socket: {e}")); ok = false }
        _ => {}
    }
    if run.spin { acc.fail("C07.rt.writer_completes", &wit, "no quiescence (spin)".into()); ok = false }
    if !ok { acc.class("violation"); return }
    if run.out.len() >= 8 {
        let announced = u32::from_be_bytes([run.out[4], run.out[5], run.out[6], run.out[7]]) as usize;
        if announced != run.out.len() {
            acc.fail("C07.rt.writer_length_field", &wit, format!("length field {announced}, {} octets reached the socket (write returned Ok): {}", run.out.len(), show(&run.out)));
            ok = false;
        }
    }
    if run.out != wire {
        let d = run.out.iter().zip(wire.iter()).position(|(a, b)| a != b).unwrap_or(run.out.len().min(wire.len()));
        acc.fail("C07.rt.writer_octets", &wit, format!("{} octets reached the socket, {} go into a Vec; first difference at octet {d}; socket {} vec {}", run.out.len(), wire.len(), show(&run.out), show(wire)));
        ok = false;
    }
    acc.class(if !ok { "violation" } else if run.writes >= 2 { "written:in-pieces" } else { "written:one-call" });
    // read back what reached the socket
    let rd = readers_for(val.ty())[0];
    judge_roundtrip(acc, val, &run.out, rd, &[Ev::Deliver(run.out.len()), Ev::Settle]);
}

/// One fault case: `rds` in sequence over `stream` (which then ends).
/// `originals`: the values the stream was written from if it is uncorrupted
/// (a complete PDU must then read back equal).
fn judge_fault(acc: &mut Acc, rds: &[Rd], originals: Option<&[&Val]>, stream: &[u8], script: &[Ev], wit: &dyn Fn() -> String) {
    if skip_for_replay(script, wit) { return }
    let run = exec(rds, stream, script);
    acc.evals += 1;
    let mut ok = run_level(acc, "fault", wit, run.pending_at_quiescence, &run.end, run.livelock, run.spin, true);
    let mut off = 0usize;
    let mut class = "err:as-expected";
    for (i, rd) in rds.iter().enumerate() {
        let exp = grammar(*rd, &stream[off..]);
        let Some(step) = run.steps.get(i) else { break };
        let used = step.consumed as usize;
        match (exp, &step.res) {
            (Exp::Ok(n), Ok(got)) => {
                if used != off + n { acc.fail("C07.fault.bounded", wit, format!("read {} returned Ok after {} octets, the PDU has {n}", i + 1, used.saturating_sub(off))); ok = false }
                if let Some(vals) = originals {
                    if let Err(d) = check_fields(vals[i], got) { acc.fail("C07.fault.prefix_complete", wit, format!("complete PDU {} before the cut: {d}", i + 1)); ok = false }
                }
                class = "ok:complete-pdu";
                off += n;
                continue
            }
            (Exp::Ok(n), Err(e)) => {
                if originals.is_some() { acc.fail("C07.fault.prefix_complete", wit, format!("complete PDU {} before the cut is rejected: {e}", i + 1)); ok = false }
                if used > off + 8usize.max(n) { acc.fail("C07.fault.bounded", wit, format!("error after {} octets of a {n}-octet PDU", used - off)); ok = false }
                class = "err:library-stricter-than-grammar";
            }
            (Exp::TryAlt, r) => {
                if used > off + 8 { acc.fail("C07.fault.bounded", wit, format!("{} octets consumed for an error header", used - off)); ok = false }
                class = if matches!(r, Ok(Got::TryAlt(_))) { "alt:error-header" } else { "err:as-expected" };
            }
            (Exp::NotDispatched, _) => {
                if used > off + 8 { acc.fail("C07.fault.bounded", wit, format!("{} octets consumed for a header", used - off)); ok = false }
                class = "not-dispatched";
            }
            (Exp::Err(maxc), Ok(got)) => {
                acc.fail("C07.fault.error_expected", wit, format!("read {} returned Ok({}) where the stream ends early or the header is wrong for this reader (grammar: error within {maxc} octets)", i + 1, trunc(&format!("{got:?}"), 160)));
                ok = false;
            }
            (Exp::Err(maxc), Err(_)) => {
                class = if i == 0 { "err:as-expected" } else { "err:as-expected-after-complete-pdus" };
                if used > off + maxc { acc.fail("C07.fault.bounded", wit, format!("error only after {} octets, bound {maxc}", used - off)); ok = false }
            }
        }
        break
    }
    acc.class(if ok { class } else { "violation" });
}

fn closes(k: usize) -> [Vec<Ev>; 2] {
    [vec![Ev::Deliver(k), Ev::Close, Ev::Settle], vec![Ev::Deliver(k), Ev::Settle, Ev::Close, Ev::Settle]]
}


//------------ client-level streams ------------------------------------------

struct ClientSeed {
    name: String,
    /// A seed of the count sweep: fragmented into <= 2 chunks only, not part of the fault space.
    sweep: bool,
    init_v: u8,
    state: Option<(u16, u32)>,
    /// The reply stream, as values.
    reply: Vec<Val>,
    /// What a step must deliver to the target: (reset, items, timing), and the new state; None: the step must fail.
    expect: Option<(bool, Vec<(Action, Payload)>, (u32, u32, u32), (u16, u32))>,
}

fn client_seeds() -> Vec<ClientSeed> {
    const S: u16 = 0x4321; const N: u32 = 0xFFFF_FFFF;
    let mut seq = [0u8; 20]; for (i, b) in seq.iter_mut().enumerate() { *b = 0xF0 | i as u8 }
    let items = |v: u8, flags: [u8; 4]| -> Vec<Val> {
        let mut o = vec![
            Val::V4 { v, flags: flags[0], plen: 8, mlen: 24, addr: 0x0A00_0000, asn: 65000 },
            Val::V6 { v, flags: flags[1], plen: 32, mlen: 128, addr: 0x2001_0db8u128 << 96, asn: 0xFFFF_FFFF },
        ];
        if v >= 1 { o.push(Val::Key { v, flags: flags[2], ski: seq, asn: 65002, info: vec![9, 8, 7] }) }
        if v >= 2 { o.push(Val::Aspa { v, flags: flags[3], customer: 65003, providers: vec![65004, 65005] }) }
        o
    };
    let eod = |v: u8| if v == 0 { Val::EodV0 { session: S, serial: N } } else { Val::EodV1 { v, session: S, serial: N, refresh: 7, retry: 8, expire: 9 } };
    let timing = |v: u8| if v == 0 { (3600, 600, 7200) } else { (7, 8, 9) };
    let seen = |vals: &[Val]| -> Vec<(Action, Payload)> {
        vals.iter().map(|x| {
            let (a, p) = expected_payload(x).unwrap();
            // a withdrawn ASPA reaches the target by customer only
            match (a, p) { (Action::Withdraw, Payload::Aspa(x)) => (a, Payload::Aspa(x.withdraw())), other => other }
        }).collect()
    };
    let mut out = Vec::new();
    for v in [0u8, 1, 2] {
        let full = items(v, [1, 1, 1, 1]);
        let mut reply = vec![Val::CacheResponse { v, session: S }]; reply.extend(full.clone()); reply.push(eod(v));
        out.push(ClientSeed { name: format!("reset.v{v}"), sweep: false, init_v: v, state: None, reply: reply.clone(),
            expect: Some((true, seen(&full), timing(v), (S, N))) });
        let diff = items(v, [0, 1, 1, 0]);
        let mut dreply = vec![Val::CacheResponse { v, session: S }]; dreply.extend(diff.clone()); dreply.push(eod(v));
        out.push(ClientSeed { name: format!("serial.v{v}"), sweep: false, init_v: v, state: Some((S, N.wrapping_sub(1))), reply: dreply,
            expect: Some((false, seen(&diff), timing(v), (S, N))) });
        let mut rreply = vec![Val::CacheReset { v }]; rreply.extend(reply.clone());
        out.push(ClientSeed { name: format!("serial-reset.v{v}"), sweep: false, init_v: v, state: Some((S, 5)), reply: rreply,
            expect: Some((true, seen(&full), timing(v), (S, N))) });
    }
    // version negotiation: the server only speaks version 1
    let full1 = items(1, [1, 1, 1, 1]);
    let mut neg = vec![Val::Error { v: 1, code: 4, pdu: vec![2, 2, 0, 0, 0, 0, 0, 8], text: b"only version 1".to_vec() }, Val::CacheResponse { v: 1, session: S }];
    neg.extend(full1.clone()); neg.push(eod(1));
    out.push(ClientSeed { name: "downgrade.v2-v1".into(), sweep: false, init_v: 2, state: None, reply: neg, expect: Some((true, seen(&full1), timing(1), (S, N))) });
    out.push(ClientSeed { name: "error-report".into(), sweep: false, init_v: 1, state: None,
        reply: vec![Val::Error { v: 1, code: 2, pdu: vec![], text: b"no data".to_vec() }], expect: None });
    // the number of payload PDUs in a reply: every count 0..=40 and the neighbourhoods of 64, 128, 256
    // (reset at version 2 with n origins alternating IPv4 / IPv6, every fifth a router key, every seventh an ASPA)
    for n in (0usize..=40).chain([63, 64, 65, 127, 128, 129, 255, 256, 257]) {
        let its: Vec<Val> = (0..n).map(|i| match i {
            i if i % 7 == 6 => Val::Aspa { v: 2, flags: 1, customer: 70000 + i as u32, providers: (0..(i % 5) as u32).map(|k| 80000 + k).collect() },
            i if i % 5 == 4 => Val::Key { v: 2, flags: 1, ski: seq, asn: 65000 + i as u32, info: vec![i as u8; i % 40] },
            i if i % 2 == 0 => Val::V4 { v: 2, flags: 1, plen: 24, mlen: 24, addr: 0x0A00_0000 | ((i as u32) << 8), asn: 64512 + i as u32 },
            i => Val::V6 { v: 2, flags: 1, plen: 48, mlen: 64, addr: (0x2001_0db8u128 << 96) | ((i as u128) << 80), asn: 64512 + i as u32 },
        }).collect();
        let mut reply = vec![Val::CacheResponse { v: 2, session: S }]; reply.extend(its.clone()); reply.push(eod(2));
        out.push(ClientSeed { name: format!("reset.v2.items{n}"), sweep: true, init_v: 2, state: None, reply, expect: Some((true, seen(&its), timing(2), (S, N))) });
    }
    out
}

fn judge_client(acc: &mut Acc, seed: &ClientSeed, stream: &[u8], script: &[Ev], pristine: bool, closed: bool, what: &str) {
    let wit = || format!("client={} reply={} {what}sched={}", seed.name, show(stream), render_script(script));
    if skip_for_replay(script, &wit) { return }
    let run = exec_client(seed.init_v, seed.state, stream, script);
    acc.evals += 1;
    let mut ok = run_level(acc, "client", &wit, run.pending_at_quiescence, &run.end, run.livelock, run.spin, closed);
    // the octets that reach the client before the stream ends
    let delivered: usize = script.iter().map(|e| if let Ev::Deliver(k) = e { *k } else { 0 }).sum();
    let seen = &stream[..delivered.min(stream.len())];
    let g = client_grammar(seed.state.is_some(), seen);
    if pristine && delivered >= stream.len() {
        match (&seed.expect, &run.res) {
            (Some((reset, items, timing, state)), Ok(())) => {
                let want = vec![(*reset, items.clone(), *timing)];
                if run.applied != want { acc.fail("C07.client.roundtrip", &wit, format!("target received {:?}, the reply carried {:?}", run.applied, want)); ok = false }
                if run.state != Some(*state) { acc.fail("C07.client.roundtrip", &wit, format!("client state {:?}, end of data said {:?}", run.state, state)); ok = false }
                if run.consumed != stream.len() as u64 { acc.fail("C07.client.roundtrip", &wit, format!("{} of {} octets consumed", run.consumed, stream.len())); ok = false }
                acc.class(if ok { "step-ok:data-equal" } else { "violation" });
            }
            (Some(_), Err(e)) => { acc.fail("C07.client.roundtrip", &wit, format!("a well-formed reply is rejected: {e}; the client had sent {}", show(&run.sent))); acc.class("violation") }
            (None, Ok(())) => { acc.fail("C07.client.error_expected", &wit, "step succeeds on an error report".into()); acc.class("violation") }
            (None, Err(_)) => acc.class(if ok { "step-err:as-expected" } else { "violation" }),
        }
        return
    }
    match (g, &run.res) {
        (CExp::Malformed(why), Ok(())) => {
            acc.fail("C07.client.error_expected", &wit, format!("step succeeds although the reply is broken ({why}); target received {}", trunc(&format!("{:?}", run.applied), 200)));
            acc.class("violation");
        }
        (CExp::Malformed(_), Err(_)) => acc.class(if ok { if run.sim_secs > 0 { "step-err:after-own-timeout" } else { "step-err:as-expected" } } else { "violation" }),
        (_, Ok(())) => acc.class(if ok { "step-ok:still-well-formed" } else { "violation" }),
        (_, Err(_)) => acc.class(if ok { "step-err:unjudged" } else { "violation" }),
    }
}


/// Splits what a client wrote into PDUs by their length fields.
fn split_sent(b: &[u8]) -> Option<Vec<&[u8]>> {
    let mut out = Vec::new();
    let mut p = 0;
    while p < b.len() {
        if b.len() - p < 8 { return None }
        let len = u32::from_be_bytes([b[p + 4], b[p + 5], b[p + 6], b[p + 7]]) as usize;
        if len < 8 || p + len > b.len() { return None }
        out.push(&b[p..p + len]); p += len;
    }
    Some(out)
}

/// The other client entry points against `Client::step` on the same stream
/// and schedule (which must end with the peer closing): `Client::new`,
/// `Client::run`, and error reports written by `Client::send_error` directly
/// and through a failing `PayloadTarget::apply`.
fn judge_client_variants(acc: &mut Acc, seed: &ClientSeed, stream: &[u8], script: &[Ev], what: &str) {
    let wit = || format!("client={} reply={} {what}variants sched={}", seed.name, show(stream), render_script(script));
    if skip_for_replay(script, &wit) { return }
    let base = exec_client(seed.init_v, seed.state, stream, script);
    let delivered: usize = script.iter().map(|e| if let Ev::Deliver(k) = e { *k } else { 0 }).sum();
    let mut ok = true;
    let mut runs = 1;
    let level = |acc: &mut Acc, r: &ClientRun| run_level(acc, "client", &wit, r.pending_at_quiescence, &r.end, r.livelock, r.spin, true);
    if seed.init_v == 2 {
        let r = exec_client_mode(CMode { how: How::New, ..CMode::STEP }, 2, seed.state, stream, script); runs += 1;
        ok &= level(acc, &r);
        if r.res != base.res || r.applied != base.applied || r.state != base.state || r.sent != base.sent {
            acc.fail("C07.client.variants", &wit, format!("Client::new: {:?} / state {:?} / sent {}; with_initial_version(2): {:?} / state {:?} / sent {}", r.res, r.state, show(&r.sent), base.res, base.state, show(&base.sent))); ok = false;
        }
    }
    let in_frame = base.res.is_err() || base.consumed as usize == delivered.min(stream.len());
    if in_frame {
        let r = exec_client_mode(CMode { how: How::Run, ..CMode::STEP }, seed.init_v, seed.state, stream, script); runs += 1;
        ok &= level(acc, &r);
        let want_ok = match &base.res { Ok(()) => true, Err(e) => e.starts_with("UnexpectedEof") };
        if r.res.is_ok() != want_ok || (!want_ok && r.res != base.res) || r.applied != base.applied || r.state != base.state {
            acc.fail("C07.client.variants", &wit, format!("Client::run: {:?}, {} updates, state {:?}; one step: {:?}, {} updates, state {:?}", r.res, r.applied.len(), r.state, base.res, base.applied.len(), base.state)); ok = false;
        }
    }
    if base.res.is_ok() && in_frame {
        let mut codes = Vec::new();
        for e in [PayloadError::UnknownWithdraw, PayloadError::DuplicateAnnounce, PayloadError::Corrupt, PayloadError::Internal] {
            let direct = exec_client_mode(CMode { send: Some(e), ..CMode::STEP }, seed.init_v, seed.state, stream, script);
            let via_apply = exec_client_mode(CMode { fail: Some(e), ..CMode::STEP }, seed.init_v, seed.state, stream, script);
            runs += 2;
            ok &= level(acc, &direct); ok &= level(acc, &via_apply);
            let r = (|| -> Result<u16, String> {
                if let Err(x) = &direct.res { return Err(format!("send_error({e:?}) fails on a healthy socket: {x}")) }
                if via_apply.res.is_ok() { return Err(format!("step succeeds although the target rejected the update with {e:?}")) }
                if direct.sent != via_apply.sent { return Err(format!("send_error({e:?}) wrote {}, the failing apply made the client write {}", show(&direct.sent), show(&via_apply.sent))) }
                if !direct.sent.starts_with(&base.sent) { return Err("the queries before the error report differ".into()) }
                let tail = &direct.sent[base.sent.len()..];
                // well-formed per the wire grammar, and skippable by the library's own reader
                if grammar(Rd::SkipError, tail) != Exp::Ok(tail.len()) { return Err(format!("error report {} is not one well-formed Error PDU", show(tail))) }
                let back = exec(&[Rd::SkipError], tail, &closes(tail.len())[0]);
                if !matches!(back.steps.first(), Some(Step { res: Ok(Got::Skipped(_)), consumed }) if *consumed as usize == tail.len()) { return Err(format!("error report {} does not read back", show(tail))) }
                let queries = split_sent(&base.sent).ok_or("client queries are not a PDU sequence")?;
                let last = queries.last().ok_or("no query was sent")?;
                if tail[0] != last[0] { return Err(format!("error report has version {}, the session runs version {}", tail[0], last[0])) }
                Ok(u16::from_be_bytes([tail[2], tail[3]]))
            })();
            match r { Ok(c) => codes.push(c), Err(d) => { acc.fail("C07.client.send_error", &wit, d); ok = false } }
        }
        if ok && dedup(codes.clone()).len() != 4 { acc.fail("C07.client.send_error", &wit, format!("the four payload errors are reported with codes {codes:?}")); ok = false }
    }
    acc.evals += runs;
    acc.class(if !ok { "violation" } else if base.res.is_ok() { "variants-agree:step-ok" } else { "variants-agree:step-err" });
}

//------------ header fields that recur within one reply -------------------------
//
// The session occurs in the Cache Response, in a Serial Notify and in the End
// of Data; the version in every PDU. The library's own server writes all of
// them from one value, so a transcript produced by it never tells a client
// that takes a field from the wrong PDU from one that takes it from the right
// one. Here each occurrence is a dimension of its own (equal / different).

/// Session ids: FA is the one the client's state carries; FB, FC are two others.
const FA: u16 = 0x4321; const FB: u16 = 0x1234; const FC: u16 = 0x2143;
/// The serial of the client's state on the serial paths.
const FN: u32 = 100;

fn seen_items(vals: &[Val]) -> Vec<(Action, Payload)> {
    vals.iter().map(|x| {
        let (a, p) = expected_payload(x).unwrap();
        // a withdrawn ASPA reaches the target by customer only
        match (a, p) { (Action::Withdraw, Payload::Aspa(x)) => (a, Payload::Aspa(x.withdraw())), other => other }
    }).collect()
}

/// One payload PDU of every type the version carries; `round` 1: other items, some withdrawn.
fn field_items(v: u8, round: u8) -> Vec<Val> {
    let mut seq = [0u8; 20]; for (i, b) in seq.iter_mut().enumerate() { *b = 0xE0 | i as u8 }
    let fl: [u8; 4] = if round == 0 { [1, 1, 1, 1] } else { [0, 1, 1, 0] };
    let r = round as u32;
    let mut o = vec![
        Val::V4 { v, flags: fl[0], plen: 8, mlen: 24, addr: 0x0A00_0000, asn: 65000 + r },
        Val::V6 { v, flags: fl[1], plen: 32, mlen: 128, addr: 0x2001_0db8u128 << 96, asn: 0xFFFF_FFFF - r },
    ];
    if v >= 1 { o.push(Val::Key { v, flags: fl[2], ski: seq, asn: 65002 + r, info: vec![9, 8, 7, round] }) }
    if v >= 2 { o.push(Val::Aspa { v, flags: fl[3], customer: 65003, providers: vec![65004, 65005 + r] }) }
    o
}

fn field_eod(v: u8, session: u16, serial: u32, round: u8) -> Val {
    let r = 10 * round as u32;
    if v == 0 { Val::EodV0 { session, serial } } else { Val::EodV1 { v, session, serial, refresh: 7 + r, retry: 8 + r, expire: 9 + r } }
}

/// The timing a target sees after an end of data of version `v` (version 0 carries none: the client's default stays).
fn field_timing(v: u8, round: u8) -> (u32, u32, u32) { let r = 10 * round as u32; if v == 0 { (3600, 600, 7200) } else { (7 + r, 8 + r, 9 + r) } }

/// One reply whose recurring header fields are chosen independently.
#[derive(Clone, Copy, Debug)]
struct FCase {
    /// 0: reset query (no state); 1: serial query (state (FA, FN)); 2: serial query answered by Cache Reset, then the reply to the reset query.
    path: u8,
    init_v: u8,
    /// Version of the Cache Response (and Cache Reset), of the payload PDUs, of the End of Data.
    vc: u8, vp: u8, ve: u8,
    /// Session of the Cache Response, session and serial of the End of Data.
    sc: u16, se: u16, ne: u32,
}

impl FCase {
    fn state(&self) -> Option<(u16, u32)> { if self.path == 0 { None } else { Some((FA, FN)) } }
    fn items(&self) -> Vec<Val> { field_items(self.vp, 0) }
    fn reply(&self) -> Vec<Val> {
        let mut o = Vec::new();
        if self.path == 2 { o.push(Val::CacheReset { v: self.vc }) }
        o.push(Val::CacheResponse { v: self.vc, session: self.sc });
        o.extend(self.items());
        o.push(field_eod(self.ve, self.se, self.ne, 0));
        o
    }
    /// All occurrences agree with each other and with what the client asked: the reply a real server gives.
    fn uniform(&self) -> bool {
        self.vc == self.init_v && self.vp == self.init_v && self.ve == self.init_v && self.sc == self.se && (self.path != 1 || self.sc == FA)
    }
}

fn fmt_state(s: Option<(u16, u32)>) -> String { match s { Some((s, n)) => format!("(session {s:#06x}, serial {n})"), None => "none".into() } }

fn render_reply(reply: &[Val]) -> String { reply.iter().map(|v| v.render()).collect::<Vec<_>>().join("+") }

/// One step of the real client over a reply with independently chosen header
/// fields: if the step succeeds the client's state is the one the End of Data
/// carries and the target has the items as written; a reply whose versions
/// disagree is an error.
fn judge_client_fields(acc: &mut Acc, c: &FCase, reply: &[Val], stream: &[u8], script: &[Ev], closed: bool) {
    let wit = || format!("client.fields path={} init_v={} state={} reply={} bytes={} sched={}", ["reset", "serial", "serial-then-reset"][c.path as usize], c.init_v, fmt_state(c.state()), render_reply(reply), show(stream), render_script(script));
    if skip_for_replay(script, &wit) { return }
    let run = exec_client(c.init_v, c.state(), stream, script);
    acc.evals += 1;
    let mut ok = run_level(acc, "client", &wit, run.pending_at_quiescence, &run.end, run.livelock, run.spin, closed);
    let g = client_grammar(c.path != 0, stream);
    match (&run.res, g) {
        (Ok(()), CExp::Malformed(why)) => {
            acc.fail("C07.client.error_expected", &wit, format!("step succeeds although the reply is broken ({why}); client state {}", fmt_state(run.state)));
            acc.class("violation");
        }
        (Ok(()), _) => {
            let want = vec![(c.path != 1, seen_items(&c.items()), field_timing(c.ve, 0))];
            if run.state != Some((c.se, c.ne)) {
                acc.fail("C07.client.fields.state", &wit, format!("the step succeeded and Client::state() is {}; the End of Data PDU it read carries session {:#06x} serial {} (Cache Response: session {:#06x}; state before: {})", fmt_state(run.state), c.se, c.ne, c.sc, fmt_state(c.state()))); ok = false;
            }
            if run.applied != want { acc.fail("C07.client.fields.items", &wit, format!("target received {}, the reply carried {}", trunc(&format!("{:?}", run.applied), 300), trunc(&format!("{want:?}"), 300))); ok = false }
            if run.consumed != stream.len() as u64 { acc.fail("C07.client.fields.consumed", &wit, format!("{} of {} octets consumed", run.consumed, stream.len())); ok = false }
            acc.class(if !ok { "violation" } else if c.uniform() { "step-ok:uniform-reply" } else { "step-ok:state-is-the-end-of-data's" });
        }
        (Err(e), g) => {
            if c.uniform() { acc.fail("C07.client.roundtrip", &wit, format!("a well-formed reply is rejected: {e}")); ok = false }
            acc.class(if !ok { "violation" } else if matches!(g, CExp::Malformed(_)) { "step-err:versions-disagree" } else { "step-err:unjudged(session or version other than asked for)" });
        }
    }
}

/// Observations of several steps of ONE client.
struct StepsRun {
    /// Result of each step that was started and the client's state after it.
    steps: Vec<(Result<(), String>, Option<(u16, u32)>)>,
    applied: Vec<(bool, Vec<(Action, Payload)>, (u32, u32, u32))>,
    sent: Vec<u8>, consumed: u64, pending_at_quiescence: bool, end: End, livelock: bool, spin: bool,
}

/// `n` calls of `Client::step` on one client (it stops at the first error).
fn exec_client_steps(init_v: u8, state: Option<(u16, u32)>, stream: &[u8], script: &[Ev], n: usize) -> StepsRun {
    SCHED.with(|s| s.borrow().run(async {
        let (sock, ctl) = sock_pair();
        let h = tokio::spawn(async move {
            let mut client = Client::with_initial_version(init_v, sock, Tgt::default(), state.map(|(s, n)| st(s, n)));
            let mut steps = Vec::new();
            for _ in 0..n {
                let r = client.step().await.map_err(|e| err_text(&e));
                let stop = r.is_err();
                steps.push((r, client.state().map(|s| (s.session(), s.serial().0))));
                if stop { break }
            }
            (steps, std::mem::take(&mut client.target_mut().applied))
        });
        let tr = play(&ctl, stream, None, script).await;
        let q = quiesce(&[&ctl]).await;
        let pending = !h.is_finished();
        let (end, steps, applied) = match join_within(h, HORIZON).await {
            Joined::Done((steps, applied)) => (End::Done, steps, applied),
            Joined::Panicked(m) => (End::Panicked(m), vec![], vec![]),
            Joined::Stuck => (End::Stuck, vec![], vec![]),
        };
        StepsRun { steps, applied, sent: ctl.output(), consumed: ctl.consumed(), pending_at_quiescence: pending, end, livelock: ctl.livelock(), spin: tr.spin || q.spin }
    }))
}

/// Two updates of one client: a reset reply, a Serial Notify, a serial reply,
/// all of one version, the sessions (and the serials) of the five PDUs that
/// carry one chosen independently.
#[derive(Clone, Copy, Debug)]
struct F2Case { v: u8, sc1: u16, sn: u16, nn: u32, sc2: u16, se2: u16, ne2: u32 }

impl F2Case {
    fn reply(&self) -> Vec<Val> {
        let mut o = vec![Val::CacheResponse { v: self.v, session: self.sc1 }];
        o.extend(field_items(self.v, 0)); o.push(field_eod(self.v, FA, FN, 0));
        o.push(Val::SerialNotify { v: self.v, session: self.sn, serial: self.nn });
        o.push(Val::CacheResponse { v: self.v, session: self.sc2 });
        o.extend(field_items(self.v, 1)); o.push(field_eod(self.v, self.se2, self.ne2, 1));
        o
    }
    fn uniform(&self) -> bool { self.sc1 == FA && self.sn == FA && self.sc2 == FA && self.se2 == FA }
}

fn judge_client_fields2(acc: &mut Acc, c: &F2Case, reply: &[Val], stream: &[u8], script: &[Ev], closed: bool) {
    let wit = || format!("client.fields two steps of one client init_v={} reply={} bytes={} sched={}", c.v, render_reply(reply), show(stream), render_script(script));
    if skip_for_replay(script, &wit) { return }
    let run = exec_client_steps(c.v, None, stream, script, 2);
    acc.evals += 1;
    let mut ok = run_level(acc, "client", &wit, run.pending_at_quiescence, &run.end, run.livelock, run.spin, closed);
    if !ok { acc.class("violation"); return }
    let t = |round: u8| if c.v == 0 { field_timing(0, 0) } else { field_timing(c.v, round) };
    let want1 = (true, seen_items(&field_items(c.v, 0)), t(0));
    let want2 = (false, seen_items(&field_items(c.v, 1)), t(1));
    // what the client must have written: a reset query, then a serial query carrying the state of the first End of Data
    let q1 = vec![c.v, 2, 0, 0, 0, 0, 0, 8];
    let q2 = { let mut q = vec![c.v, 1, (FA >> 8) as u8, FA as u8, 0, 0, 0, 12]; q.extend_from_slice(&FN.to_be_bytes()); q };
    match run.steps.as_slice() {
        [(Ok(()), s1), rest @ ..] => {
            if *s1 != Some((FA, FN)) { acc.fail("C07.client.fields.steps.state", &wit, format!("after the first step Client::state() is {}; the End of Data carries session {FA:#06x} serial {FN} (Cache Response: {:#06x})", fmt_state(*s1), c.sc1)); ok = false }
            if run.applied.first() != Some(&want1) { acc.fail("C07.client.fields.steps.items", &wit, format!("first update: target received {}", trunc(&format!("{:?}", run.applied.first()), 300))); ok = false }
            // which query follows is judged only where nothing the client has seen contradicts its state
            // (a client may answer a foreign session in the first reply or in the notify by starting over)
            let settled = c.sc1 == FA && c.sn == FA;
            if ok && settled && run.sent != [&q1[..], &q2[..]].concat() {
                acc.fail("C07.client.fields.steps.next_query", &wit, format!("the client wrote {}; a reset query and a serial query for the state of the first End of Data are {}", show(&run.sent), show(&[&q1[..], &q2[..]].concat()))); ok = false
            }
            match rest {
                [(Ok(()), s2)] => {
                    if *s2 != Some((c.se2, c.ne2)) {
                        acc.fail("C07.client.fields.steps.state", &wit, format!("the second step succeeded and Client::state() is {}; the End of Data PDU it read carries session {:#06x} serial {} (Cache Response: session {:#06x}; Serial Notify: {:#06x}/{}; state before: ({FA:#06x}, {FN}))", fmt_state(*s2), c.se2, c.ne2, c.sc2, c.sn, c.nn)); ok = false;
                    }
                    if run.applied.len() != 2 || run.applied[1].1 != want2.1 || run.applied[1].2 != want2.2 || (settled && run.applied[1].0) { acc.fail("C07.client.fields.steps.items", &wit, format!("second update: target received {}", trunc(&format!("{:?}", run.applied.get(1..)), 300))); ok = false }
                    if run.consumed != stream.len() as u64 { acc.fail("C07.client.fields.steps.consumed", &wit, format!("{} of {} octets consumed", run.consumed, stream.len())); ok = false }
                    acc.class(if !ok { "violation" } else if c.uniform() { "steps-ok:uniform-replies" } else { "steps-ok:state-is-the-last-end-of-data's" });
                }
                [(Err(e), _)] => {
                    if c.uniform() { acc.fail("C07.client.roundtrip", &wit, format!("the second of two well-formed replies is rejected: {e}")); ok = false }
                    acc.class(if ok { "second-step-err:unjudged(sessions differ)" } else { "violation" });
                }
                _ => { acc.fail("C07.client.no_hang", &wit, "the second step was not run".into()); acc.class("violation") }
            }
        }
        [(Err(e), _), ..] => {
            if c.sc1 == FA { acc.fail("C07.client.roundtrip", &wit, format!("a well-formed reset reply is rejected: {e}")); ok = false }
            acc.class(if ok { "first-step-err:unjudged(sessions differ)" } else { "violation" });
        }
        [] => { acc.fail("C07.client.no_hang", &wit, "no step completed".into()); acc.class("violation") }
    }
}


//------------ scale x truncation: long variable parts cut near every boundary ---

/// k-1, k, k+1 for k = 2^lo ..= 2^hi.
fn around_powers(lo: u32, hi: u32) -> Vec<usize> { (lo..=hi).flat_map(|p| { let k = 1usize << p; [k - 1, k, k + 1] }).collect() }

/// Seeds whose variable part crosses every power of two: router key info and
/// both fields of an error report up to 2^17 octets (thorough: 2^18, 2^20),
/// ASPA provider lists up to the maximum count.
fn scale_seeds(thorough: bool) -> Vec<Val> {
    let mut out = Vec::new();
    let mut seq = [0u8; 20]; for (i, b) in seq.iter_mut().enumerate() { *b = 0xA0 | i as u8 }
    let mut lens = around_powers(6, 17);
    if thorough { lens.extend(around_powers(18, 18)); lens.extend(around_powers(20, 20)) }
    for &n in &lens {
        out.push(Val::Key { v: 1 + (n % 2) as u8, flags: 1, ski: seq, asn: 0x00AB_CDEF, info: (0..n).map(|i| (i as u8).wrapping_mul(29) ^ 0x6B).collect() });
    }
    let mut counts = around_powers(4, 13); counts.extend([16379, 16380]);
    for n in counts {
        out.push(Val::Aspa { v: 2, flags: 1, customer: 0x00AB_CDEF, providers: (0..n as u32).map(|i| i.wrapping_mul(0x0101_0101) ^ 0x4000_0001).collect() });
    }
    // version 1, code 4: the error report a client reads (and skips) as the first reply to a version 2 query
    for &n in &lens {
        out.push(Val::Error { v: 1, code: 4, pdu: vec![], text: (0..n).map(|i| b'a' + (i % 26) as u8).collect() });
        out.push(Val::Error { v: 1, code: 4, pdu: (0..n).map(|i| i as u8).collect(), text: b"x".to_vec() });
    }
    out
}

/// Truncation points of a long PDU: the first 40 octets, a window (b-8 ..= b+48,
/// which reaches past the fixed part in front of the variable one) around every
/// power of two b >= 64 and every multiple of `stride`, and the last 40 octets
/// up to the complete PDU.
fn scale_cuts(len: usize, stride: usize) -> Vec<usize> {
    let mut v: Vec<usize> = (0..=40.min(len)).collect();
    let mut b = 64usize;
    while b <= len + 8 { v.extend((b - 8..=b + 48).filter(|k| *k <= len)); b <<= 1 }
    // ... and around every multiple of `stride` (thresholds and buffer sizes that are not powers of two themselves)
    let mut b = stride;
    while b <= len + 8 { v.extend((b - 8..=b + 48).filter(|k| *k <= len)); b += stride }
    v.extend(len.saturating_sub(40)..=len);
    v.sort(); v.dedup(); v
}

/// The reply through which the real client reads a long PDU, and what the
/// target and the state must be once all of it has arrived.
fn scale_client_seed(val: &Val, serial_path: bool) -> ClientSeed {
    const N: u32 = 0xFFFF_FFF0;
    let state = if serial_path { Some((FA, N - 1)) } else { None };
    let name = format!("{}.long:{}", if serial_path { "serial" } else { "reset" }, val.render());
    match val {
        Val::Error { .. } => {
            // version negotiation: the long error report is skipped, the reply follows in version 1
            let item = Val::V4 { v: 1, flags: 1, plen: 8, mlen: 24, addr: 0x0A00_0000, asn: 65000 };
            let reply = vec![val.clone(), Val::CacheResponse { v: 1, session: FA }, item.clone(), field_eod(1, FA, N, 0)];
            ClientSeed { name, sweep: true, init_v: 2, state, reply, expect: Some((!serial_path, seen_items(&[item]), field_timing(1, 0), (FA, N))) }
        }
        _ => {
            let v = val.version();
            let reply = vec![Val::CacheResponse { v, session: FA }, val.clone(), field_eod(v, FA, N, 0)];
            ClientSeed { name, sweep: true, init_v: v, state, reply, expect: Some((!serial_path, seen_items(&[val.clone()]), field_timing(v, 0), (FA, N))) }
        }
    }
}


//------------ history: what happened before on the same thread ----------------

/// A subject of the history space: an evaluation reduced to one comparable string.
struct Subject { name: String, run: Box<dyn Fn() -> String + Send + Sync> }

fn guarded(f: impl FnOnce() -> String) -> String { rpki_verif::guard(f).unwrap_or_else(|p| format!("PANIC {p}")) }

/// The values the history subjects are built from: every PDU type, and pairs
/// with the same identity but different content (same key identifier, same
/// customer, same prefix).
fn history_values() -> Vec<Val> {
    let ski = [0xC3u8; 20];
    vec![
        Val::Key { v: 1, flags: 1, ski, asn: 64500, info: vec![1, 2, 3, 4, 5] },
        Val::Key { v: 1, flags: 1, ski, asn: 64500, info: vec![9; 7] },
        Val::Aspa { v: 2, flags: 1, customer: 64501, providers: vec![1, 2] },
        Val::Aspa { v: 2, flags: 1, customer: 64501, providers: vec![3] },
        Val::V4 { v: 1, flags: 1, plen: 8, mlen: 16, addr: 0x0A00_0000, asn: 1 },
        Val::V4 { v: 1, flags: 0, plen: 8, mlen: 24, addr: 0x0A00_0000, asn: 2 },
        Val::V6 { v: 1, flags: 1, plen: 32, mlen: 48, addr: 0x2001_0db8u128 << 96, asn: 1 },
        Val::V6 { v: 1, flags: 0, plen: 32, mlen: 64, addr: 0x2001_0db8u128 << 96, asn: 2 },
        Val::Key { v: 2, flags: 0, ski: [7; 20], asn: 64502, info: (0..91).map(|i| i as u8).collect() },
        Val::Aspa { v: 2, flags: 0, customer: 64503, providers: (0..40).collect() },
        Val::EodV0 { session: 7, serial: 8 },
        Val::EodV1 { v: 2, session: 7, serial: 8, refresh: 1, retry: 2, expire: 3 },
        Val::SerialNotify { v: 1, session: 7, serial: 8 },
        Val::SerialQuery { v: 1, session: 7, serial: 8 },
        Val::ResetQuery { v: 1 }, Val::CacheResponse { v: 1, session: 7 }, Val::CacheReset { v: 1 },
        Val::Error { v: 1, code: 4, pdu: vec![1, 2, 0, 0, 0, 0, 0, 8], text: b"ver\xff".to_vec() },
    ]
}

fn payload_of(b: &Built) -> Option<pdu::Payload> {
    match b {
        Built::V4(p) => Some(pdu::Payload::V4(*p)), Built::V6(p) => Some(pdu::Payload::V6(*p)),
        Built::Key(p) => Some(pdu::Payload::RouterKey(p.clone())), Built::Aspa(p) => Some(pdu::Payload::Aspa(p.clone())),
        _ => None,
    }
}

fn client_obs(r: &ClientRun) -> String { format!("{:?} applied={:?} state={:?} sent={} end={:?}", r.res, r.applied, r.state, hex(&r.sent), r.end) }

fn history_subjects(hv: &[(Val, Built, Vec<u8>)], cseeds: &[(u8, Option<(u16, u32)>, Vec<u8>, String)]) -> Vec<Subject> {
    let mut out: Vec<Subject> = Vec::new();
    for (val, built, wire) in hv {
        let (b, w, name) = (built.clone(), wire.clone(), val.render());
        out.push(Subject { name: format!("write {name}"), run: Box::new(move || guarded(|| {
            let r = exec_write(&b, false, &[Ev::Settle]);
            format!("{:?} {} vec={}", r.res, hex(&r.out), hex(&b.wire()))
        })) });
        let (b, name) = (built.clone(), val.render());
        if b.has_enum_path() {
            out.push(Subject { name: format!("enum-write {name} in 3-octet writes"), run: Box::new(move || guarded(|| {
                let r = exec_write(&b, true, &[Ev::WriteChunk(3), Ev::Settle]); format!("{:?} {}", r.res, hex(&r.out))
            })) });
        }
        let (w2, rd, name) = (w.clone(), readers_for(val.ty())[0], val.render());
        out.push(Subject { name: format!("read {name}"), run: Box::new(move || guarded(|| {
            let r = exec(&[rd], &w2, &closes(w2.len())[1]); format!("{:?} end={:?}", r.steps, r.end)
        })) });
        if let Some(p) = payload_of(built) {
            let name = val.render();
            out.push(Subject { name: format!("to_payload {name}"), run: Box::new(move || guarded(|| format!("{:?}", p.to_payload().map_err(|e| hex(e.as_ref()))))) });
            let (w3, name) = (w.clone(), val.render());
            out.push(Subject { name: format!("Payload::read+to_payload {name}"), run: Box::new(move || guarded(|| {
                let r = exec(&[Rd::PayloadRead], &w3, &closes(w3.len())[0]);
                match r.steps.first().map(|s| &s.res) { Some(Ok(Got::Payload(p))) => format!("{:?}", p.to_payload().map_err(|e| hex(e.as_ref()))), other => format!("{other:?}") }
            })) });
        }
    }
    // rejected evaluations
    let (w, rd) = (hv[0].2.clone(), Rd::Read(Ty::RouterKey));
    out.push(Subject { name: "read router key cut at 20".into(), run: Box::new(move || guarded(|| { let r = exec(&[rd], &w[..20], &closes(20)[0]); format!("{:?} end={:?}", r.steps, r.end) })) });
    let w = hv[4].2.clone();
    out.push(Subject { name: "Ipv6Prefix::read on an IPv4 prefix".into(), run: Box::new(move || guarded(|| { let r = exec(&[Rd::Read(Ty::V6)], &w, &closes(w.len())[0]); format!("{:?}", r.steps) })) });
    out.push(Subject { name: "to_payload with prefix length 33".into(), run: Box::new(|| guarded(|| format!("{:?}",
        pdu::Payload::V4(pdu::Ipv4Prefix::new(1, 1, 33, 33, Ipv4Addr::from(0), Asn::from_u32(1))).to_payload().map_err(|e| hex(e.as_ref()))))) });
    // the server and the two ends together as readers
    for q in 0..2 {
        out.push(Subject { name: format!("server reads a {} query in two chunks around a notification", if q == 0 { "serial" } else { "reset" }), run: Box::new(move || guarded(|| {
            let w = history_query(q);
            let r = exec_server(&w, &[Ev::Deliver(3), Ev::Settle, Ev::Notify, Ev::Settle, Ev::Deliver(w.len() - 3), Ev::Settle, Ev::Close, Ev::Settle]);
            format!("{:?} out={} consumed={} ended={}", r.asked, hex(&r.out), r.consumed, r.conn_ended)
        })) });
    }
    out.push(Subject { name: "client and server, two steps, notify in two chunks".into(), run: Box::new(|| guarded(|| {
        let r = exec_e2e(&Plan { v: 2, start: None, steps: 2, msg: 2, sizes: vec![5, 7], tick_before: None });
        format!("{:?} applied={:?} state={:?} asked={:?} end={:?}", r.steps, r.applied, r.state, r.asked, r.client_end)
    })) });
    out.push(Subject { name: "origin without max length: written, read back, looked up".into(), run: Box::new(|| guarded(|| {
        let a = Abs::Origin { v6: false, addr: 0x0A00_0000, plen: 8, mlen: 8, asn: 64496 };
        let mut acc = Acc::default();
        match forms_of(&a, &Abs::Origin { v6: false, addr: 0, plen: 0, mlen: 0, asn: 1 }) {
            // a handful of forms: the plainest two and those that leave the max length out
            Ok(f) => { let few: Vec<Form> = f.into_iter().enumerate().filter(|(i, x)| *i < 2 || x.name.contains("{..}(MaxLenPrefix::new(p,None)") || x.name.contains("SLURM")).map(|(_, x)| x).collect(); judge_forms(&mut acc, &a, &few) }
            Err(e) => return e,
        }
        format!("{} evaluations, {} failures {:?}", acc.evals, acc.fails.len(), acc.fails.iter().map(|f| f.oracle).collect::<Vec<_>>())
    })) });
    for (init_v, state, stream, name) in cseeds.iter().cloned() {
        let (st2, n2) = (stream.clone(), name.clone());
        out.push(Subject { name: format!("client step {name}"), run: Box::new(move || guarded(|| client_obs(&exec_client(init_v, state, &stream, &closes(stream.len())[1])))) });
        out.push(Subject { name: format!("client step {n2} cut at 30"), run: Box::new(move || guarded(|| client_obs(&exec_client(init_v, state, &st2, &closes(30)[0])))) });
    }
    out
}

/// The queries of the server-side history subjects and predecessors.
fn history_query(q: usize) -> Vec<u8> {
    if q == 0 { Val::SerialQuery { v: 1, session: 0x1234, serial: 0xDEAD_BEEF }.build().wire() } else { Val::ResetQuery { v: 1 }.build().wire() }
}

/// A predecessor: an operation of the same API family that leaves by one particular exit.
#[derive(Clone, Debug)]
enum Pred {
    /// Another subject, run to completion.
    Subject(usize),
    /// A write that is pending after k octets and is then dropped.
    WriteCancelled(usize, bool, usize),
    /// A write whose writer fails after k octets.
    WriteError(usize, bool, usize),
    /// A read that is pending after k octets and is then dropped.
    ReadCancelled(usize, usize, usize),
    /// A read whose stream fails (connection reset) after k octets.
    ReadError(usize, usize, usize),
    /// A read whose stream ends after k octets.
    ReadEof(usize, usize, usize),
    /// A client step dropped / failed / ended after k octets of the reply.
    ClientCancelled(usize, usize), ClientError(usize, usize),
    /// A server connection whose client hangs up after k octets of a query (0: serial, 1: reset), a notification before that or not.
    ServerCut(usize, usize, bool),
}

fn run_pred(p: &Pred, subjects: &[Subject], hv: &[(Val, Built, Vec<u8>)], cseeds: &[(u8, Option<(u16, u32)>, Vec<u8>, String)]) {
    let _ = rpki_verif::guard(|| match p {
        Pred::Subject(i) => { (subjects[*i].run)(); }
        Pred::WriteCancelled(i, via, k) | Pred::WriteError(i, via, k) => {
            let (b, via, k, fail) = (hv[*i].1.clone(), *via, *k, matches!(p, Pred::WriteError(..)));
            SCHED.with(|s| s.borrow().run(async move {
                let (sock, ctl) = sock_pair();
                ctl.set_write_budget(Some(k));
                let h = tokio::spawn(async move { let mut sock = sock; let _ = write_built(&b, via, &mut sock).await; sock });
                quiesce(&[&ctl]).await;
                if fail { ctl.fail_writes(io::ErrorKind::BrokenPipe); ctl.set_write_budget(None); quiesce(&[&ctl]).await; }
                h.abort();
                let _ = h.await;
            }));
        }
        Pred::ReadCancelled(i, r, k) | Pred::ReadError(i, r, k) | Pred::ReadEof(i, r, k) => {
            let (w, rd, k) = (hv[*i].2.clone(), readers_for(hv[*i].0.ty())[*r], *k);
            let kind = match p { Pred::ReadError(..) => 1, Pred::ReadEof(..) => 2, _ => 0 };
            SCHED.with(|s| s.borrow().run(async move {
                let (sock, ctl) = sock_pair();
                ctl.deliver(&w[..k]);
                let h = tokio::spawn(async move { let mut sock = sock; let _ = run_reader(rd, &mut sock).await; sock });
                quiesce(&[&ctl]).await;
                if kind == 1 { ctl.fail_reads(io::ErrorKind::ConnectionReset); quiesce(&[&ctl]).await; }
                if kind == 2 { ctl.close(); quiesce(&[&ctl]).await; }
                h.abort();
                let _ = h.await;
            }));
        }
        Pred::ServerCut(q, k, n) => {
            let w = history_query(*q);
            let script: Vec<Ev> = if *n { vec![Ev::Deliver(*k), Ev::Settle, Ev::Notify, Ev::Settle, Ev::Close, Ev::Settle] } else { vec![Ev::Deliver(*k), Ev::Close, Ev::Settle] };
            exec_server(&w[..*k], &script);
        }
        Pred::ClientCancelled(i, k) | Pred::ClientError(i, k) => {
            let (init_v, state, stream, _) = cseeds[*i].clone();
            let (k, fail) = (*k, matches!(p, Pred::ClientError(..)));
            SCHED.with(|s| s.borrow().run(async move {
                let (sock, ctl) = sock_pair();
                ctl.deliver(&stream[..k]);
                let h = tokio::spawn(async move {
                    let mut client = Client::with_initial_version(init_v, sock, Tgt::default(), state.map(|(s, n)| st(s, n)));
                    let _ = client.step().await;
                });
                quiesce(&[&ctl]).await;
                if fail { ctl.fail_reads(io::ErrorKind::ConnectionReset); quiesce(&[&ctl]).await; }
                h.abort();
                let _ = h.await;
            }));
        }
    });
}

fn render_pred(p: &Pred, subjects: &[Subject], hv: &[(Val, Built, Vec<u8>)], cseeds: &[(u8, Option<(u16, u32)>, Vec<u8>, String)]) -> String {
    match p {
        Pred::Subject(i) => format!("[{}]", subjects[*i].name),
        Pred::WriteCancelled(i, via, k) => format!("[write{} {} pending after {k} octets, dropped]", if *via { " (enum)" } else { "" }, hv[*i].0.render()),
        Pred::WriteError(i, via, k) => format!("[write{} {} writer fails after {k} octets]", if *via { " (enum)" } else { "" }, hv[*i].0.render()),
        Pred::ReadCancelled(i, r, k) => format!("[{} of {} pending after {k} octets, dropped]", readers_for(hv[*i].0.ty())[*r].render(), hv[*i].0.render()),
        Pred::ReadError(i, r, k) => format!("[{} of {} stream fails after {k} octets]", readers_for(hv[*i].0.ty())[*r].render(), hv[*i].0.render()),
        Pred::ReadEof(i, r, k) => format!("[{} of {} stream ends after {k} octets]", readers_for(hv[*i].0.ty())[*r].render(), hv[*i].0.render()),
        Pred::ServerCut(q, k, n) => format!("[server connection: {} query cut after {k} octets{}, client closes]", if *q == 0 { "serial" } else { "reset" }, if *n { ", then a notification" } else { "" }),
        Pred::ClientCancelled(i, k) => format!("[client step {} pending after {k} octets, dropped]", cseeds[*i].3),
        Pred::ClientError(i, k) => format!("[client step {} stream fails after {k} octets]", cseeds[*i].3),
    }
}

/// Runs `f` on an OS thread of its own (library thread-locals start out fresh).
fn on_fresh_thread<T: Send>(f: impl FnOnce() -> T + Send) -> T {
    std::thread::scope(|sc| std::thread::Builder::new().stack_size(8 << 20).spawn_scoped(sc, f).expect("cannot spawn a thread").join().expect("history thread died"))
}

//------------ construction forms of the payload values -------------------------
//
// Every way the public API offers to arrive at a payload value (constructors,
// public fields / struct literals, field edits, `Default`, `From` / `TryFrom`,
// `FromStr`, serde -- for items the SLURM assertions --, `Arbitrary`) must
// denote the same item as far as the wire and the collections a client keeps
// its data in are concerned: a normalisation done by one constructor must not
// be relied upon by `==`, `Hash`, `Ord` or the PDU writers.

/// What a payload item is on the wire, as plain integers and octets.
#[derive(Clone, Debug, PartialEq, Eq, PartialOrd, Ord)]
enum Abs {
    /// An IPv4 address lives in the low 32 bits of `addr`.
    Origin { v6: bool, addr: u128, plen: u8, mlen: u8, asn: u32 },
    Key { ski: [u8; 20], asn: u32, info: Vec<u8> },
    Aspa { customer: u32, providers: Vec<u32> },
}

impl Abs {
    fn min_version(&self) -> u8 { match self { Abs::Origin { .. } => 0, Abs::Key { .. } => 1, Abs::Aspa { .. } => 2 } }

    fn ip(&self) -> Option<IpAddr> {
        match self { Abs::Origin { v6, addr, .. } => Some(if *v6 { IpAddr::V6(Ipv6Addr::from(*addr)) } else { IpAddr::V4(Ipv4Addr::from(*addr as u32)) }), _ => None }
    }

    fn render(&self) -> String {
        match self {
            Abs::Origin { plen, mlen, asn, .. } => format!("origin({}/{plen} max {mlen} asn {asn})", self.ip().unwrap()),
            Abs::Key { ski, asn, info } => format!("router-key(ski {:#04x}.. asn {asn} info {} octets)", ski[0], info.len()),
            Abs::Aspa { customer, providers } => format!("aspa(customer {customer} providers {})", if providers.len() <= 6 { format!("{providers:?}") } else { format!("{}x", providers.len()) }),
        }
    }

    /// The PDU for this item, written without the library.
    fn wire(&self, v: u8, flags: u8) -> Vec<u8> {
        let hdr = |ty: u8, session: [u8; 2], len: u32| { let mut o = vec![v, ty, session[0], session[1]]; o.extend_from_slice(&len.to_be_bytes()); o };
        match self {
            Abs::Origin { v6: false, addr, plen, mlen, asn } => {
                let mut o = hdr(4, [0, 0], 20); o.extend_from_slice(&[flags, *plen, *mlen, 0]);
                o.extend_from_slice(&(*addr as u32).to_be_bytes()); o.extend_from_slice(&asn.to_be_bytes()); o
            }
            Abs::Origin { addr, plen, mlen, asn, .. } => {
                let mut o = hdr(6, [0, 0], 32); o.extend_from_slice(&[flags, *plen, *mlen, 0]);
                o.extend_from_slice(&addr.to_be_bytes()); o.extend_from_slice(&asn.to_be_bytes()); o
            }
            Abs::Key { ski, asn, info } => {
                let mut o = hdr(9, [flags, 0], 32 + info.len() as u32);
                o.extend_from_slice(ski); o.extend_from_slice(&asn.to_be_bytes()); o.extend_from_slice(info); o
            }
            Abs::Aspa { customer, providers } => {
                let mut o = hdr(11, [flags, 0], 12 + 4 * providers.len() as u32);
                o.extend_from_slice(&customer.to_be_bytes());
                for p in providers { o.extend_from_slice(&p.to_be_bytes()) }
                o
            }
        }
    }
}

/// The abstract item a library value stands for, through its accessors only.
fn abs_of(p: &Payload) -> Abs {
    match p {
        Payload::Origin(o) => {
            let addr = match o.prefix.addr() { IpAddr::V4(a) => u32::from(a) as u128, IpAddr::V6(a) => u128::from(a) };
            Abs::Origin { v6: !o.is_v4(), addr, plen: o.prefix.prefix_len(), mlen: o.prefix.resolved_max_len(), asn: o.asn.into_u32() }
        }
        Payload::RouterKey(k) => {
            let mut ski = [0u8; 20]; ski.copy_from_slice(k.key_identifier.as_slice());
            Abs::Key { ski, asn: k.asn.into_u32(), info: k.key_info.as_slice().to_vec() }
        }
        Payload::Aspa(a) => Abs::Aspa { customer: a.customer.into_u32(), providers: a.providers.iter().map(|x| x.into_u32()).collect() },
    }
}

struct Form { name: String, item: Payload }

/// Short rendering of a library item that shows the representation (an omitted max length stays visible).
fn item_repr(p: &Payload) -> String {
    match p {
        Payload::Origin(o) => format!("{}/{} max_len={:?} {}", o.prefix.addr(), o.prefix.prefix_len(), o.prefix.max_len(), o.asn),
        Payload::RouterKey(k) => format!("key {} {} info={}", k.key_identifier, k.asn, trunc(&hex(k.key_info.as_slice()), 24)),
        Payload::Aspa(a) => format!("aspa {} providers={}", a.customer, trunc(&format!("{:?}", a.providers.iter().map(|x| x.into_u32()).collect::<Vec<_>>()), 60)),
    }
}

fn es<E: std::fmt::Display>(what: &str) -> impl Fn(E) -> String + '_ { move |e| format!("{what}: {e}") }

fn b64url(b: &[u8]) -> String {
    use base64::Engine;
    base64::engine::general_purpose::URL_SAFE_NO_PAD.encode(b)
}

/// The item through the SLURM (serde) route: a locally added assertion.
fn slurm_form(a: &Abs) -> Result<Payload, String> {
    let (version, body) = match a {
        Abs::Origin { plen, mlen, asn, .. } => {
            let ml = if mlen == plen && asn % 2 == 0 { String::new() } else { format!(", \"maxPrefixLength\": {mlen}") };
            (1, format!("\"prefixAssertions\": [{{\"asn\": {asn}, \"prefix\": \"{}/{plen}\"{ml}}}], \"bgpsecAssertions\": []", a.ip().unwrap()))
        }
        Abs::Key { ski, asn, info } =>
            (1, format!("\"prefixAssertions\": [], \"bgpsecAssertions\": [{{\"asn\": {asn}, \"SKI\": \"{}\", \"routerPublicKey\": \"{}\"}}]", b64url(ski), b64url(info))),
        Abs::Aspa { customer, providers } =>
            (2, format!("\"prefixAssertions\": [], \"bgpsecAssertions\": [], \"aspaAssertions\": [{{\"customerAsn\": {customer}, \"providerAsns\": {providers:?}}}]")),
    };
    let filters = if version == 2 { "\"prefixFilters\": [], \"bgpsecFilters\": [], \"aspaFilters\": []" } else { "\"prefixFilters\": [], \"bgpsecFilters\": []" };
    let text = format!("{{\"slurmVersion\": {version}, \"validationOutputFilters\": {{{filters}}}, \"locallyAddedAssertions\": {{{body}}}}}");
    let file = rpki::slurm::SlurmFile::from_str(&text).map_err(|e| format!("{e}"))?;
    let items: Vec<Payload> = file.assertions.iter_payload().collect();
    if items.len() != 1 { return Err(format!("{} items", items.len())) }
    Ok(items.into_iter().next().unwrap())
}

/// Every construction form of the item `a`; `other` is a different item of
/// the same kind that the field-edit forms start from.
fn forms_of(a: &Abs, other: &Abs) -> Result<Vec<Form>, String> {
    let mut out: Vec<Form> = Vec::new();
    let mut put = |name: String, item: Payload| out.push(Form { name, item });
    let asn_forms = |n: u32| -> Result<Vec<(&'static str, Asn)>, String> {
        let mut v = vec![
            ("Asn::from_u32", Asn::from_u32(n)), ("Asn::from(u32)", Asn::from(n)),
            ("Asn::from_str(AS<n>)", Asn::from_str(&format!("AS{n}")).map_err(es("Asn::from_str"))?),
            ("Asn::from_str(<n>)", Asn::from_str(&n.to_string()).map_err(es("Asn::from_str"))?),
            ("serde Asn", serde_json::from_str::<Asn>(&n.to_string()).map_err(es("serde Asn"))?),
        ];
        if n > 0 { v.push(("Asn + 1", Asn::from_u32(n - 1) + 1)) }
        Ok(v)
    };
    match a {
        Abs::Origin { v6, addr, plen, mlen, asn } => {
            let (v6, addr, plen, mlen, asn) = (*v6, *addr, *plen, *mlen, *asn);
            let max: u8 = if v6 { 128 } else { 32 };
            let ip = a.ip().unwrap();
            let host_bits: u128 = if plen == max { 0 } else if v6 { u128::MAX >> plen } else { (u32::MAX as u128) >> plen };
            let host: IpAddr = if v6 { IpAddr::V6(Ipv6Addr::from(addr | host_bits)) } else { IpAddr::V4(Ipv4Addr::from((addr | host_bits) as u32)) };
            let text = format!("{ip}/{plen}");
            let mut pfx: Vec<(&'static str, Prefix)> = vec![
                ("Prefix::new", Prefix::new(ip, plen).map_err(es("Prefix::new"))?),
                ("Prefix::new_relaxed(host bits set)", Prefix::new_relaxed(host, plen).map_err(es("Prefix::new_relaxed"))?),
                ("Prefix::from_str", Prefix::from_str(&text).map_err(es("Prefix::from_str"))?),
                ("Prefix::from_str_relaxed(host bits set)", Prefix::from_str_relaxed(&format!("{host}/{plen}")).map_err(es("Prefix::from_str_relaxed"))?),
                ("serde Prefix", serde_json::from_str::<Prefix>(&format!("\"{text}\"")).map_err(es("serde Prefix"))?),
            ];
            match (ip, host) {
                (IpAddr::V4(i), IpAddr::V4(h)) => {
                    pfx.push(("Prefix::new_v4", Prefix::new_v4(i, plen).map_err(es("Prefix::new_v4"))?));
                    pfx.push(("Prefix::new_v4_relaxed(host bits set)", Prefix::new_v4_relaxed(h, plen).map_err(es("Prefix::new_v4_relaxed"))?));
                }
                (IpAddr::V6(i), IpAddr::V6(h)) => {
                    pfx.push(("Prefix::new_v6", Prefix::new_v6(i, plen).map_err(es("Prefix::new_v6"))?));
                    pfx.push(("Prefix::new_v6_relaxed(host bits set)", Prefix::new_v6_relaxed(h, plen).map_err(es("Prefix::new_v6_relaxed"))?));
                }
                _ => unreachable!(),
            }
            let p0 = pfx[0].1;
            let mut mls: Vec<(String, MaxLenPrefix)> = vec![
                ("MaxLenPrefix::new(p,Some(max))".into(), MaxLenPrefix::new(p0, Some(mlen)).map_err(es("MaxLenPrefix::new"))?),
                ("MaxLenPrefix::saturating_new(p,Some(max))".into(), MaxLenPrefix::saturating_new(p0, Some(mlen))),
                ("MaxLenPrefix::from_str(a/l-m)".into(), MaxLenPrefix::from_str(&format!("{text}-{mlen}")).map_err(es("MaxLenPrefix::from_str"))?),
            ];
            if mlen == plen {
                mls.push(("MaxLenPrefix::new(p,None)".into(), MaxLenPrefix::new(p0, None).map_err(es("MaxLenPrefix::new"))?));
                mls.push(("MaxLenPrefix::from(Prefix)".into(), MaxLenPrefix::from(p0)));
                mls.push(("MaxLenPrefix::saturating_new(p,None)".into(), MaxLenPrefix::saturating_new(p0, None)));
                mls.push(("MaxLenPrefix::from_str(a/l)".into(), MaxLenPrefix::from_str(&text).map_err(es("MaxLenPrefix::from_str"))?));
                if plen > 0 { mls.push(("MaxLenPrefix::saturating_new(p,Some(len-1))".into(), MaxLenPrefix::saturating_new(p0, Some(plen - 1)))) }
            }
            if mlen == max { mls.push(("MaxLenPrefix::saturating_new(p,Some(255))".into(), MaxLenPrefix::saturating_new(p0, Some(255)))) }
            let asns = asn_forms(asn)?;
            let (ml0, asn0) = (mls[0].1, asns[0].1);
            // where a field edit starts from
            let start = match forms_of_plain(other) { Payload::Origin(o) => o, _ => return Err("edit start is not an origin".into()) };
            // the max-length forms x the ways to make an origin of them x the ways to wrap it
            for (mn, ml) in &mls {
                put(format!("Payload::origin({mn})"), Payload::origin(*ml, asn0));
                let made = RouteOrigin::new(*ml, asn0);
                let literal = RouteOrigin { prefix: *ml, asn: asn0 };
                let edited = { let mut o = start; o.prefix = *ml; o.asn = asn0; o };
                for (on, o) in [("RouteOrigin::new", made), ("RouteOrigin{..}", literal), ("fields assigned", edited)] {
                    put(format!("Payload::from({on}({mn}))"), Payload::from(o));
                    put(format!("Payload::Origin({on}({mn}))"), Payload::Origin(o));
                }
            }
            for (pn, p) in &pfx[1..] {
                put(format!("Payload::origin(MaxLenPrefix::new({pn},Some(max)))"), Payload::origin(MaxLenPrefix::new(*p, Some(mlen)).map_err(es("MaxLenPrefix::new"))?, asn0));
                if mlen == plen { put(format!("Payload::Origin(RouteOrigin{{MaxLenPrefix::from({pn})}})"), Payload::Origin(RouteOrigin { prefix: MaxLenPrefix::from(*p), asn: asn0 })) }
            }
            for (an, x) in &asns[1..] {
                put(format!("Payload::origin(.., {an})"), Payload::origin(ml0, *x));
                put(format!("Payload::Origin(RouteOrigin{{.., {an}}})"), Payload::Origin(RouteOrigin { prefix: mls.last().unwrap().1, asn: *x }));
            }
        }
        Abs::Key { ski, asn, info } => {
            let hexski: String = ski.iter().map(|b| format!("{b:02x}")).collect();
            let kis: Vec<(&'static str, KeyIdentifier)> = vec![
                ("KeyIdentifier::from([u8;20])", KeyIdentifier::from(*ski)),
                ("KeyIdentifier::try_from(&[u8])", KeyIdentifier::try_from(&ski[..]).map_err(es("KeyIdentifier::try_from"))?),
                ("KeyIdentifier::from_str", KeyIdentifier::from_str(&hexski).map_err(es("KeyIdentifier::from_str"))?),
                ("KeyIdentifier::from_str(upper case)", KeyIdentifier::from_str(&hexski.to_uppercase()).map_err(es("KeyIdentifier::from_str"))?),
                ("serde KeyIdentifier", serde_json::from_str::<KeyIdentifier>(&format!("\"{hexski}\"")).map_err(es("serde KeyIdentifier"))?),
            ];
            let mut big = vec![0xEEu8; 3]; big.extend_from_slice(info); big.extend_from_slice(&[0xDD; 5]);
            let big = Bytes::from(big);
            let infos: Vec<(&'static str, pdu::RouterKeyInfo)> = vec![
                ("RouterKeyInfo::new(Bytes)", pdu::RouterKeyInfo::new(Bytes::from(info.clone())).map_err(es("RouterKeyInfo::new"))?),
                ("RouterKeyInfo::try_from(Vec)", pdu::RouterKeyInfo::try_from(info.clone()).map_err(es("RouterKeyInfo::try_from"))?),
                ("RouterKeyInfo::try_from(Bytes view)", pdu::RouterKeyInfo::try_from(big.slice(3..3 + info.len())).map_err(es("RouterKeyInfo::try_from"))?),
                ("pdu::RouterKey::into_key_info", pdu::RouterKey::new(1, 0, [0; 20], Asn::from_u32(0), pdu::RouterKeyInfo::new(Bytes::copy_from_slice(info)).map_err(es("RouterKeyInfo::new"))?).into_key_info()),
                ("RouterKeyInfo::from(Base64KeyInfo)", pdu::RouterKeyInfo::from(rpki::slurm::Base64KeyInfo::try_from(info.clone()).map_err(es("Base64KeyInfo::try_from"))?)),
            ];
            let asns = asn_forms(*asn)?;
            let start = match forms_of_plain(other) { Payload::RouterKey(k) => k, _ => return Err("edit start is not a router key".into()) };
            let mut wraps = |tag: String, ki: KeyIdentifier, x: Asn, inf: &pdu::RouterKeyInfo| {
                put(format!("Payload::router_key({tag})"), Payload::router_key(ki, x, inf.clone()));
                let made = ItemKey::new(ki, x, inf.clone());
                let literal = ItemKey { key_identifier: ki, asn: x, key_info: inf.clone() };
                let edited = { let mut k = start.clone(); k.key_info = inf.clone(); k.asn = x; k.key_identifier = ki; k };
                for (on, k) in [("RouterKey::new", made), ("RouterKey{..}", literal), ("fields assigned", edited)] {
                    put(format!("Payload::from({on}({tag}))"), Payload::from(k.clone()));
                    put(format!("Payload::RouterKey({on}({tag}).clone())"), Payload::RouterKey(k.clone()));
                }
            };
            for (n, ki) in &kis { wraps((*n).to_string(), *ki, asns[0].1, &infos[0].1) }
            for (n, inf) in &infos[1..] { wraps((*n).to_string(), kis[0].1, asns[0].1, inf) }
            for (n, x) in &asns[1..] { wraps((*n).to_string(), kis[0].1, *x, &infos[0].1) }
        }
        Abs::Aspa { customer, providers } => {
            let it = || providers.iter().map(|p| Asn::from_u32(*p));
            let mut provs: Vec<(&'static str, pdu::ProviderAsns)> = vec![
                ("ProviderAsns::try_from_iter(Vec)", pdu::ProviderAsns::try_from_iter(it().collect::<Vec<_>>()).map_err(es("try_from_iter"))?),
                ("ProviderAsns::try_from_iter(iterator without size hint)", pdu::ProviderAsns::try_from_iter(it().filter(|_| true)).map_err(es("try_from_iter"))?),
                ("ProviderAsns::try_from_iter(chained halves)", pdu::ProviderAsns::try_from_iter(it().take(providers.len() / 2).chain(it().skip(providers.len() / 2))).map_err(es("try_from_iter"))?),
                ("pdu::Aspa::into_providers", pdu::Aspa::new(2, 1, Asn::from_u32(0), pdu::ProviderAsns::try_from_iter(it()).map_err(es("try_from_iter"))?).into_providers()),
            ];
            if providers.is_empty() {
                provs.push(("ProviderAsns::empty", pdu::ProviderAsns::empty()));
                provs.push(("Aspa::withdraw().providers", ItemAspa::new(Asn::from_u32(7), pdu::ProviderAsns::try_from_iter([Asn::from_u32(1)]).map_err(es("try_from_iter"))?).withdraw().providers));
            }
            let asns = asn_forms(*customer)?;
            let start = match forms_of_plain(other) { Payload::Aspa(x) => x, _ => return Err("edit start is not an ASPA".into()) };
            let mut wraps = |tag: String, c: Asn, pr: &pdu::ProviderAsns| {
                put(format!("Payload::aspa({tag})"), Payload::aspa(c, pr.clone()));
                let made = ItemAspa::new(c, pr.clone());
                let literal = ItemAspa { customer: c, providers: pr.clone() };
                let edited = { let mut x = start.clone(); x.providers = pr.clone(); x.customer = c; x };
                for (on, x) in [("Aspa::new", made), ("Aspa{..}", literal), ("fields assigned", edited)] {
                    put(format!("Payload::from({on}({tag}))"), Payload::from(x.clone()));
                    put(format!("Payload::Aspa({on}({tag}).clone())"), Payload::Aspa(x.clone()));
                }
            };
            for (n, pr) in &provs { wraps((*n).to_string(), asns[0].1, pr) }
            for (n, x) in &asns[1..] { wraps((*n).to_string(), *x, &provs[0].1) }
        }
    }
    match slurm_form(a) {
        Ok(item) => put("SLURM locallyAddedAssertions (serde)".into(), item),
        Err(e) => return Err(format!("SLURM assertion for a valid item is rejected: {e}")),
    }
    Ok(out)
}

/// The item through the plainest constructors (the start of field edits).
fn forms_of_plain(a: &Abs) -> Payload {
    match a {
        Abs::Origin { plen, mlen, asn, .. } => Payload::origin(MaxLenPrefix::new(Prefix::new(a.ip().unwrap(), *plen).unwrap(), Some(*mlen)).unwrap(), Asn::from_u32(*asn)),
        Abs::Key { ski, asn, info } => Payload::router_key(KeyIdentifier::from(*ski), Asn::from_u32(*asn), pdu::RouterKeyInfo::new(Bytes::from(info.clone())).unwrap()),
        Abs::Aspa { customer, providers } => Payload::aspa(Asn::from_u32(*customer), pdu::ProviderAsns::try_from_iter(providers.iter().map(|p| Asn::from_u32(*p))).unwrap()),
    }
}

fn hash_std<T: Hash>(t: &T) -> u64 { let mut h = std::collections::hash_map::DefaultHasher::new(); t.hash(&mut h); h.finish() }

/// A second, octet-wise hasher (FNV-1a): what a hash depends on must not depend on the hasher.
struct Fnv(u64);
impl Hasher for Fnv {
    fn finish(&self) -> u64 { self.0 }
    fn write(&mut self, b: &[u8]) { for x in b { self.0 ^= *x as u64; self.0 = self.0.wrapping_mul(0x100000001b3) } }
}
fn hash_fnv<T: Hash>(t: &T) -> u64 { let mut h = Fnv(0xcbf29ce484222325); t.hash(&mut h); h.finish() }

/// `x` and `y` stand for the same item: `==`, `Hash` and `Ord` must all say so.
fn same_law<T: Eq + Hash + Ord>(x: &T, y: &T, sets: bool) -> Result<(), (&'static str, String)> {
    use std::cmp::Ordering::Equal;
    if !(x == y) || !(y == x) || x != y { return Err(("C07.forms.equal", format!("== says {} / {}", x == y, y == x))) }
    if hash_std(x) != hash_std(y) || hash_fnv(x) != hash_fnv(y) { return Err(("C07.forms.hash", "equal values hash differently".into())) }
    if !sets { return if x.cmp(y) != Equal || y.cmp(x) != Equal || x.partial_cmp(y) != Some(Equal) { Err(("C07.forms.ord", format!("cmp says {:?} / {:?} for values that are ==", x.cmp(y), y.cmp(x)))) } else { Ok(()) } }
    let mut set = HashSet::new(); set.insert(x);
    if !set.contains(y) || !set.remove(y) { return Err(("C07.forms.hash", "a HashSet holding the one does not find / remove the other".into())) }
    if x.cmp(y) != Equal || y.cmp(x) != Equal || x.partial_cmp(y) != Some(Equal) || x < y || x > y || !(x <= y) || !(x >= y) {
        return Err(("C07.forms.ord", format!("cmp says {:?} / {:?}, partial_cmp {:?}, for values that are ==", x.cmp(y), y.cmp(x), x.partial_cmp(y))))
    }
    let mut tree = BTreeSet::new(); tree.insert(x);
    if !tree.contains(y) || !tree.remove(y) { return Err(("C07.forms.ord", "a BTreeSet holding the one does not find the other".into())) }
    Ok(())
}

/// `x` and `y` stand for different items.
fn distinct_law<T: Eq + Hash + Ord>(x: &T, y: &T) -> Result<(), String> {
    use std::cmp::Ordering::Equal;
    if x == y || y == x || !(x != y) { return Err("== holds between different items".into()) }
    let (a, b) = (x.cmp(y), y.cmp(x));
    if a == Equal || b == Equal || a != b.reverse() || x.partial_cmp(y) != Some(a) || (x < y) != (a == std::cmp::Ordering::Less) {
        return Err(format!("cmp says {a:?} / {b:?} (partial_cmp {:?}) between different items", x.partial_cmp(y)))
    }
    Ok(())
}

/// The three levels at which user code holds an item.
/// `deep`: with the collection lookups at every level and the `PayloadRef::from` routes (used for
/// every form against what is read back; pairs of forms do the lookups at the `Payload` level only).
fn same_item(x: &Payload, y: &Payload, deep: bool) -> Result<(), (&'static str, String)> {
    let lvl = |l: &str, r: Result<(), (&'static str, String)>| r.map_err(|(o, d)| (o, format!("{l}: {d}")));
    lvl("Payload", same_law(x, y, true))?;
    lvl("PayloadRef", same_law(&x.as_ref(), &y.as_ref(), deep))?;
    match (x, y) {
        (Payload::Origin(a), Payload::Origin(b)) => {
            lvl("RouteOrigin", same_law(a, b, deep))?;
            if deep { lvl("PayloadRef::from(RouteOrigin)", same_law(&PayloadRef::from(*a), &PayloadRef::from(b), deep))? }
            if x.to_origin() != Some(*b) { return Err(("C07.forms.equal", "to_origin() of the one != the other".into())) }
        }
        (Payload::RouterKey(a), Payload::RouterKey(b)) => { lvl("RouterKey", same_law(a, b, deep))?; if deep { lvl("PayloadRef::from(&RouterKey)", same_law(&PayloadRef::from(a), &PayloadRef::from(b), deep))? } }
        (Payload::Aspa(a), Payload::Aspa(b)) => { lvl("Aspa", same_law(a, b, deep))?; if deep { lvl("PayloadRef::from(&Aspa)", same_law(&PayloadRef::from(a), &PayloadRef::from(b), deep))? } }
        _ => return Err(("C07.forms.equal", "different variants".into())),
    }
    Ok(())
}

/// Reads one payload PDU from a slice; what was read and the octets left.
fn read_payload_slice(w: &[u8]) -> Result<(pdu::Payload, usize), String> {
    let mut rd: &[u8] = w;
    match pdu::Payload::read(&mut rd).now_or_never() {
        None => Err("Payload::read is pending on a slice".into()),
        Some(Err(e)) => Err(format!("Payload::read fails: {}", err_text(&e))),
        Some(Ok(Err(e))) => Err(format!("Payload::read returns end of data {e:?}")),
        Some(Ok(Ok(None))) => Err("Payload::read skips the PDU as unsupported".into()),
        Some(Ok(Ok(Some(p)))) => Ok((p, rd.len())),
    }
}

fn write_vec<F: std::future::Future<Output = io::Result<()>>>(f: F) -> Result<(), String> {
    match f.now_or_never() { None => Err("write is pending on a Vec".into()), Some(Err(e)) => Err(err_text(&e)), Some(Ok(())) => Ok(()) }
}

/// One item in all its forms: the forms against the item they were built
/// for, against the wire, against what is read back, and against each other.
fn judge_forms(acc: &mut Acc, a: &Abs, forms: &[Form]) {
    let withdrawn = |f: &Payload| match f { Payload::Aspa(x) => Payload::Aspa(x.withdraw()), other => other.clone() };
    for f in forms {
        let wit = || format!("item={} form={}", a.render(), f.name);
        acc.evals += 1;
        let r = rpki_verif::guard(|| -> Result<(), (&'static str, String)> {
            let got = abs_of(&f.item);
            if got != *a { return Err(("C07.forms.accessors", format!("the accessors of the value built say {}", got.render()))) }
            same_item(&f.item, &f.item.clone(), true).map_err(|(o, d)| (o, format!("against its own clone: {d}")))?;
            for v in a.min_version()..=2 { for action in [Action::Announce, Action::Withdraw] {
                let flags = action.into_flags();
                let want = a.wire(v, flags);
                let p = pdu::Payload::new(v, flags, f.item.as_ref());
                if pdu::Payload::new_if_supported(v, flags, f.item.as_ref()).as_ref() != Some(&p) { return Err(("C07.forms.wire", format!("version {v}: new_if_supported differs from new"))) }
                let mut wire = Vec::new();
                write_vec(p.write(&mut wire)).map_err(|e| ("C07.forms.wire", e))?;
                if wire != want { return Err(("C07.forms.wire", format!("version {v} {action:?}: written {} expected {}", show(&wire), show(&want)))) }
                let (back, left) = read_payload_slice(&wire).map_err(|e| ("C07.forms.read_back", e))?;
                if left != 0 || back != p || back.version() != v || back.flags() != flags { return Err(("C07.forms.read_back", format!("version {v} {action:?}: the PDU read back differs from the one written ({left} octets left)"))) }
                let (act, item) = back.to_payload().map_err(|_| ("C07.forms.read_back", "to_payload rejects what the library wrote".to_string()))?;
                if act != action { return Err(("C07.forms.read_back", format!("action {act:?} read back for {action:?}"))) }
                // a withdrawn ASPA arrives by customer only
                let twin = if action == Action::Withdraw { withdrawn(&f.item) } else { f.item.clone() };
                let tw_abs = abs_of(&twin);
                if abs_of(&item) != tw_abs { return Err(("C07.forms.read_back", format!("version {v} {action:?}: read back {}", abs_of(&item).render()))) }
                same_item(&item, &twin, true).map_err(|(o, d)| (o, format!("version {v} {action:?}: the item read back ({}) against the item written ({}): {d}", item_repr(&item), item_repr(&twin))))?;
            } }
            Ok(())
        });
        match r {
            Ok(Ok(())) => acc.class("form:round-trips-equal"),
            Ok(Err((o, d))) => { acc.fail(o, wit, d); acc.class("violation") }
            Err(p) => { acc.fail("C07.forms.no_panic", wit, p); acc.class("violation") }
        }
    }
    // every pair of forms
    for (i, f) in forms.iter().enumerate() { for g in &forms[i + 1..] {
        acc.evals += 1; acc.nontrivial += 1;
        let wit = || format!("item={} form_a={} form_b={}", a.render(), f.name, g.name);
        match rpki_verif::guard(|| same_item(&f.item, &g.item, false)) {
            Ok(Ok(())) => acc.class("pair:same-item"),
            Ok(Err((o, d))) => { acc.fail(o, wit, format!("{d}; a={} b={}", item_repr(&f.item), item_repr(&g.item))); acc.class("violation") }
            Err(p) => { acc.fail("C07.forms.no_panic", wit, p); acc.class("violation") }
        }
    } }
}

/// The items of the forms space.
fn form_items() -> Vec<Abs> {
    let mut out = Vec::new();
    for asn in [0u32, 64496, 0xFFFF_FFFF] {
        for plen in [0u8, 1, 8, 24, 31, 32] {
            let mask: u32 = if plen == 0 { 0 } else { u32::MAX << (32 - plen) };
            for mlen in dedup(vec![plen, (plen + 32).div_ceil(2), 32]) { for addr in dedup(vec![0xC633_64AB & mask, mask]) {
                if asn != 64496 && addr == mask && plen != 0 { continue }
                out.push(Abs::Origin { v6: false, addr: addr as u128, plen, mlen, asn });
            } }
        }
        for plen in [0u8, 1, 32, 64, 127, 128] {
            let mask: u128 = if plen == 0 { 0 } else { u128::MAX << (128 - plen) };
            for mlen in dedup(vec![plen, ((plen as u16 + 129) / 2) as u8, 128]) { for addr in dedup(vec![0x2001_0db8_85a3_0042_1000_8a2e_0370_7335 & mask, mask]) {
                if asn != 64496 && addr == mask && plen != 0 { continue }
                out.push(Abs::Origin { v6: true, addr, plen, mlen, asn });
            } }
        }
    }
    let mut seq = [0u8; 20]; for (i, b) in seq.iter_mut().enumerate() { *b = (i as u8) * 13 + 1 }
    for ski in [[0xFFu8; 20], seq] { for asn in [0u32, 64500] { for n in [0usize, 1, 5, 91, 300] {
        out.push(Abs::Key { ski, asn, info: (0..n).map(|i| (i as u8) ^ 0xA5).collect() });
    } } }
    for customer in [0u32, 64501, 0xFFFF_FFFF] {
        // sorted, unsorted, with duplicates, long: the library must carry the list as given
        for providers in [vec![], vec![1], vec![1, 2], vec![2, 1], vec![3, 3], vec![0xFFFF_FFFF, 0, 7, 7, 1], (0..40).map(|i| 70000 - i).collect::<Vec<u32>>()] {
            out.push(Abs::Aspa { customer, providers });
        }
    }
    out
}

/// Items drawn through the `Arbitrary` impls from a small, fixed family of inputs.
fn arbitrary_items() -> Vec<(String, Payload)> {
    use arbitrary::{Arbitrary, Unstructured};
    let mut inputs: Vec<Vec<u8>> = Vec::new();
    // every octet string of length <= 1, a grid of those of length 2
    inputs.push(vec![]);
    for a in 0..=255u8 { inputs.push(vec![a]) }
    for a in 0..4u8 { for b in (0..=255u8).step_by(15) { inputs.push(vec![a, b]) } }
    // structured: selector / family octet, length octet, 16 address octets, option flag, option value, 4 ASN octets, then a length and contents for the variable parts
    for sel in [0u8, 1] { for len in [0u8, 24, 32, 33, 128, 255] { for addr in [0x00u8, 0xA5] {
        for opt in [[0u8, 0], [1, 0], [1, 24], [1, 32], [1, 200], [0, 32]] { for asn in [0u8, 0xFE] {
            let mut d = vec![sel, len]; d.extend_from_slice(&[addr; 16]); d.extend_from_slice(&opt); d.extend_from_slice(&[asn; 4]);
            d.extend_from_slice(&[3, 0, 0, 0, 0, 0, 0, 0, 9, 8, 7, 6, 5, 4, 3, 2]);
            inputs.push(d);
        } }
    } } }
    // the variable-length parts: a little-endian length and that many octets (router key info, provider octets)
    for n in [0u8, 1, 2, 5, 8] {
        let mut d = vec![0x11u8; 24]; d.extend_from_slice(&[n, 0, 0, 0, 0, 0, 0, 0]); d.extend((0..40u8).map(|i| i ^ 0x5A)); inputs.push(d.clone());
        let mut e = vec![0x22u8; 4]; e.extend_from_slice(&[n, 0, 0, 0, 0, 0, 0, 0]); e.extend((0..40u8).map(|i| i.wrapping_mul(7))); inputs.push(e);
    }
    let mut out = Vec::new();
    for d in &inputs {
        let tag = if d.len() <= 8 { hex(d) } else { format!("{}..x{}", hex(&d[..8]), d.len()) };
        let mut draw = |ty: &str, r: Result<arbitrary::Result<Payload>, String>| if let Ok(Ok(p)) = r { out.push((format!("{ty}::arbitrary(input {tag})"), p)) };
        draw("RouteOrigin", rpki_verif::guard(|| RouteOrigin::arbitrary(&mut Unstructured::new(d)).map(Payload::Origin)));
        draw("RouterKey", rpki_verif::guard(|| ItemKey::arbitrary(&mut Unstructured::new(d)).map(Payload::RouterKey)));
        draw("Aspa", rpki_verif::guard(|| ItemAspa::arbitrary(&mut Unstructured::new(d)).map(Payload::Aspa)));
        draw("Payload", rpki_verif::guard(|| Payload::arbitrary(&mut Unstructured::new(d))));
    }
    out
}

fn space_forms(ctx: &Ctx) {
    let sp = ctx.space("forms.items",
        "every payload item of a boundary domain (IPv4/IPv6 origins: prefix lengths 0,1,8,24,31,32 / 0,1,32,64,127,128 x max length = len, middle, family maximum x ASN 0, 64496, 2^32-1; router keys: 2 key identifiers x 2 ASNs x key info of 0,1,5,91,300 octets; ASPA: 3 customers x provider lists empty, one, sorted, unsorted, with duplicates, 40 long) built in EVERY construction form the public API offers -- constructors (Payload::origin / router_key / aspa, RouteOrigin::new, RouterKey::new, Aspa::new), struct literals through the public fields, fields assigned on a value that was something else before, From / TryFrom impls, FromStr, serde (Prefix, Asn, KeyIdentifier; the item as a SLURM locally added assertion), prefixes given with host bits to the relaxed constructors, max length omitted / explicit / saturated where that denotes the same item, key info as sole owner / view into a larger buffer / taken out of a PDU, provider lists from iterators with and without size hint -- plus the items the Arbitrary impls draw from a fixed family of inputs (every octet string of <= 2 octets, structured inputs over family x length octet x address fill x max-length option x ASN): each form must answer its accessors with the item it was built for, be written by pdu::Payload::new / new_if_supported as exactly the octets an independent encoder gives (versions that carry the type x both actions), and be read back by Payload::read + to_payload as an item that is ==, hashes equal under two hashers, is found in and removed from a HashSet, compares Equal and is found in a BTreeSet -- as Payload, PayloadRef and RouteOrigin / RouterKey / Aspa; every PAIR of forms of one item must satisfy the same laws; forms of DIFFERENT items must be != and never compare Equal; non-trivial = pairs of distinct forms of one item + pairs of different items");
    // a replay of a witness of another space has nothing to look for here
    if let Some(Some(r)) = REPLAY.get() { if !["item=", "item_a=", "session=", "timing=", "action ", "drawing", "control"].iter().any(|p| r.starts_with(p)) { return } }
    // the domain: constructed items, and whatever items the Arbitrary impls draw
    let arb = rpki_verif::guard(arbitrary_items);
    let arb = match arb { Ok(a) => a, Err(p) => { sp.eval(); ctx.fail("C07.forms.no_panic", "drawing items through the Arbitrary impls", p); Vec::new() } };
    let mut groups: BTreeMap<Abs, Vec<(String, Payload)>> = BTreeMap::new();
    for a in form_items() { groups.entry(a).or_default(); }
    let (mut arb_none, mut arb_some, mut arb_total) = (0u64, 0u64, 0u64);
    for (name, item) in arb {
        let Ok(a) = rpki_verif::guard(|| abs_of(&item)) else { continue };
        if let Payload::Origin(o) = &item { if o.prefix.max_len().is_none() { arb_none += 1 } else { arb_some += 1 } }
        arb_total += 1;
        let g = groups.entry(a).or_default();
        // one draw per distinct representation is enough
        if g.len() < 3 && !g.iter().any(|(_, x)| format!("{x:?}") == format!("{item:?}")) { g.push((name, item)) }
    }
    let items: Vec<(Abs, Vec<(String, Payload)>)> = groups.into_iter().collect();
    let accs: Vec<Acc> = items.par_iter().enumerate().map(|(i, (a, drawn))| {
        let mut acc = Acc::default();
        // a different item of the same kind, for the field-edit forms
        let other = items.iter().cycle().skip(i + 1).map(|(x, _)| x).find(|x| std::mem::discriminant(*x) == std::mem::discriminant(a) && *x != a).unwrap_or(a);
        let forms = match rpki_verif::guard(|| forms_of(a, other)) {
            Ok(Ok(f)) => f,
            Ok(Err(e)) => { acc.evals += 1; acc.fail("C07.forms.construct", || format!("item={}", a.render()), format!("a public route refuses or fails to build a valid item: {e}")); acc.class("violation"); return acc }
            Err(p) => { acc.evals += 1; acc.fail("C07.forms.no_panic", || format!("item={}", a.render()), format!("building the forms panics: {p}")); acc.class("violation"); return acc }
        };
        let mut forms = forms;
        for (name, item) in drawn { forms.push(Form { name: name.clone(), item: item.clone() }) }
        judge_forms(&mut acc, a, &forms);
        acc
    }).collect();
    report(ctx, &sp, accs);
    // different items: three forms each (the plainest, a literal, the last one -- a drawn one where there is one)
    let reps: Vec<(usize, Vec<Form>)> = items.iter().enumerate().filter_map(|(i, (a, drawn))| {
        let other = items.iter().cycle().skip(i + 1).map(|(x, _)| x).find(|x| std::mem::discriminant(*x) == std::mem::discriminant(a) && *x != a).unwrap_or(a);
        let mut f = rpki_verif::guard(|| forms_of(a, other)).ok()?.ok()?;
        for (name, item) in drawn { f.push(Form { name: name.clone(), item: item.clone() }) }
        let lit = f.iter().rposition(|x| x.name.contains("{..}") && (x.name.contains("None") || x.name.contains("from(Prefix)") || !matches!(a, Abs::Origin { .. }))).unwrap_or(1.min(f.len() - 1));
        let last = f.len() - 1;
        let mut picked = Vec::new();
        for k in dedup(vec![0, lit, last]) { picked.push(Form { name: f[k].name.clone(), item: f[k].item.clone() }) }
        Some((i, picked))
    }).collect();
    let first_of_kind: Vec<usize> = { let mut v: Vec<usize> = Vec::new(); for (i, (a, _)) in items.iter().enumerate() { if !v.iter().any(|k| std::mem::discriminant(&items[*k].0) == std::mem::discriminant(a)) { v.push(i) } } v };
    let accs: Vec<Acc> = reps.par_iter().map(|(i, fa)| {
        let mut acc = Acc::default();
        for (j, fb) in &reps {
            if j <= i { continue }
            // all pairs of items of one kind; across kinds the first item of each kind stands for the kind
            let same_kind = std::mem::discriminant(&items[*i].0) == std::mem::discriminant(&items[*j].0);
            if !same_kind && !(first_of_kind.contains(i) && first_of_kind.contains(j)) { continue }
            for x in fa { for y in fb {
                acc.evals += 1; acc.nontrivial += 1;
                let r = rpki_verif::guard(|| -> Result<(), String> {
                    distinct_law(&x.item, &y.item).map_err(|d| format!("Payload: {d}"))?;
                    distinct_law(&x.item.as_ref(), &y.item.as_ref()).map_err(|d| format!("PayloadRef: {d}"))?;
                    match (&x.item, &y.item) {
                        (Payload::Origin(a), Payload::Origin(b)) => distinct_law(a, b).map_err(|d| format!("RouteOrigin: {d}")),
                        (Payload::RouterKey(a), Payload::RouterKey(b)) => distinct_law(a, b).map_err(|d| format!("RouterKey: {d}")),
                        (Payload::Aspa(a), Payload::Aspa(b)) => distinct_law(a, b).map_err(|d| format!("Aspa: {d}")),
                        _ => Ok(()),
                    }
                });
                let wit = || format!("item_a={} form_a={} item_b={} form_b={}", items[*i].0.render(), x.name, items[*j].0.render(), y.name);
                match r {
                    Ok(Ok(())) => acc.class("pair:different-items-differ"),
                    Ok(Err(d)) => { acc.fail("C07.forms.distinct", wit, d); acc.class("violation") }
                    Err(p) => { acc.fail("C07.forms.no_panic", wit, p); acc.class("violation") }
                }
            } }
        }
        acc
    }).collect();
    report(ctx, &sp, accs);
    sp.set("items", serde_json::json!(items.len()));
    sp.set("arbitrary_draws", serde_json::json!({ "items": arb_total, "origins_without_max_len": arb_none, "origins_with_max_len": arb_some }));
    sp.outcomes_n("drawn:origin-without-max-len", arb_none);
    sp.outcomes_n("drawn:origin-with-max-len", arb_some);
    sp.sample_str(|| { let a = Abs::Origin { v6: false, addr: 0x0A00_0000, plen: 8, mlen: 8, asn: 64496 };
        format!("{}: {}", a.render(), forms_of(&a, &a).map(|f| f.iter().map(|x| x.name.clone()).collect::<Vec<_>>().join(" | ")).unwrap_or_default()) });
    sp.done(true, &format!("{} items x all construction forms x all form pairs; 3 forms each of all pairs of different items of one kind", items.len()));

    //--- the values control PDUs carry: State / Serial, Timing, Action
    let sp = ctx.space("forms.control",
        "session state, timing and action values in every construction form -- State::from_parts with the serial as Serial(n), Serial::from, FromStr, from_be(to_be), Default, reached by inc() and by add(); State::new / new_with_serial / default (session taken from the clock); the states and serials the Arbitrary impls draw; Timing as a literal, Default, struct update and assigned fields; Action literal, from_flags for all 256 flag octets, drawn -- carried by every PDU that has the field (SerialNotify, SerialQuery, CacheResponse, EndOfDataV0, EndOfDataV1, EndOfData::new; payload PDUs for the action), versions 0-2: octets written equal the independent encoding, and what is read back answers session / serial / timing / action with the values given; serials read back are ==, equally hashed and partial_cmp Equal to the ones written; non-trivial = forms other than the plain constructor");
    let mut acc = Acc::default();
    let r = rpki_verif::guard(|| judge_control_forms(&mut acc));
    if let Err(p) = r { acc.fail("C07.forms.no_panic", || "control value forms".to_string(), p); acc.class("violation") }
    report(ctx, &sp, vec![acc]);
    sp.done(true, "4 sessions x 5 serials x state forms x 6 carriers x versions; 6 timings x forms x 2 carriers; 256 flag octets");
}

/// Object-level history: an item that has been through a sequence of field
/// assignments, clones and observations must be the item its fields now say,
/// exactly like a twin that was built from those fields in one go.
fn space_forms_history(ctx: &Ctx) {
    if let Some(Some(r)) = REPLAY.get() { if !r.starts_with("history of ") { return } }
    let sp = ctx.space("forms.history",
        "for each kind of item three values A, B, C (origins: one with the max length left out, one explicit, one IPv6; router keys and ASPAs with different identifiers and contents of different lengths): every sequence of <= 3 operations out of { assign one public field from A / B / C, clone and go on with the clone (the original must stay what it was), observe (compare, hash, write as a PDU, read back -- results thrown away) } applied to an item built as A, B or C; afterwards the item must be the one its fields say: equal in ==, Hash, Ord, in the octets written and in what is read back to a twin built from those field values through the constructor; for session states: every sequence of <= 3 out of { inc, add(1), add(2^31-1), copy, observe } against State::from_parts of the serial computed by the model; non-trivial = sequences with at least one assignment or inc/add");
    #[derive(Clone, Copy, Debug, PartialEq, Eq)]
    enum Op { Set(usize, usize), Clone, Observe }
    // the values: per kind three items, given by their fields
    let origins: [(MaxLenPrefix, Asn); 3] = [
        (MaxLenPrefix::from(Prefix::new_v4(Ipv4Addr::from(0x0A00_0000), 8).unwrap()), Asn::from_u32(64496)),
        (MaxLenPrefix::new(Prefix::new_v4(Ipv4Addr::from(0x0A00_0000), 8).unwrap(), Some(24)).unwrap(), Asn::from_u32(64497)),
        (MaxLenPrefix::new(Prefix::new_v6(Ipv6Addr::from(0x2001_0db8u128 << 96), 32).unwrap(), None).unwrap(), Asn::from_u32(0xFFFF_FFFF)),
    ];
    let info = |n: usize, x: u8| pdu::RouterKeyInfo::new(Bytes::from(vec![x; n])).unwrap();
    let keys: [(KeyIdentifier, Asn, pdu::RouterKeyInfo); 3] = [
        (KeyIdentifier::from([1; 20]), Asn::from_u32(1), info(0, 0)), (KeyIdentifier::from([2; 20]), Asn::from_u32(2), info(5, 0xAA)), (KeyIdentifier::from([0xFF; 20]), Asn::from_u32(0xFFFF_FFFF), info(91, 0x55)),
    ];
    let provs = |v: &[u32]| pdu::ProviderAsns::try_from_iter(v.iter().map(|x| Asn::from_u32(*x))).unwrap();
    let aspas: [(Asn, pdu::ProviderAsns); 3] = [(Asn::from_u32(10), provs(&[])), (Asn::from_u32(11), provs(&[3, 1, 2])), (Asn::from_u32(12), provs(&[7, 7]))];
    // kind, number of fields; build(kind, field sources) and set(item, field, source)
    let build = |kind: usize, f: &[usize]| -> Payload { match kind {
        0 => Payload::origin(origins[f[0]].0, origins[f[1]].1),
        1 => Payload::router_key(keys[f[0]].0, keys[f[1]].1, keys[f[2]].2.clone()),
        _ => Payload::aspa(aspas[f[0]].0, aspas[f[1]].1.clone()),
    } };
    let set = |item: &mut Payload, field: usize, src: usize| match item {
        Payload::Origin(o) => if field == 0 { o.prefix = origins[src].0 } else { o.asn = origins[src].1 },
        Payload::RouterKey(k) => match field { 0 => k.key_identifier = keys[src].0, 1 => k.asn = keys[src].1, _ => k.key_info = keys[src].2.clone() },
        Payload::Aspa(a) => if field == 0 { a.customer = aspas[src].0 } else { a.providers = aspas[src].1.clone() },
    };
    let observe = |item: &Payload| {
        let _ = (item == &item.clone(), hash_std(item), item.cmp(item));
        let mut w = Vec::new(); let _ = write_vec(pdu::Payload::new(2, 1, item.as_ref()).write(&mut w));
        let _ = read_payload_slice(&w).map(|(p, _)| p.to_payload().is_ok());
    };
    let fields = [2usize, 3, 2];
    let mut jobs: Vec<(usize, usize, Vec<Op>)> = Vec::new();
    for kind in 0..3 {
        let mut ops = vec![Op::Clone, Op::Observe];
        for f in 0..fields[kind] { for src in 0..3 { ops.push(Op::Set(f, src)) } }
        let mut seqs: Vec<Vec<Op>> = vec![vec![]];
        let mut layer: Vec<Vec<Op>> = vec![vec![]];
        for _ in 0..3 { let mut next = Vec::new(); for sq in &layer { for o in &ops { let mut n = sq.clone(); n.push(*o); next.push(n) } } seqs.extend(next.iter().cloned()); layer = next; }
        for start in 0..3 { for sq in &seqs { jobs.push((kind, start, sq.clone())) } }
    }
    let accs: Vec<Acc> = jobs.par_chunks(256).map(|chunk| {
        let mut acc = Acc::default();
        for (kind, start, seq) in chunk {
            acc.evals += 1;
            let edits = seq.iter().any(|o| matches!(o, Op::Set(..)));
            if edits { acc.nontrivial += 1 }
            let wit = || format!("history of {} built as {}: {}", ["an origin", "a router key", "an ASPA"][*kind], ["A", "B", "C"][*start],
                seq.iter().map(|o| match o { Op::Set(f, s) => format!("field#{f}:={}", ["A", "B", "C"][*s]), Op::Clone => "clone".into(), Op::Observe => "observe".into() }).collect::<Vec<_>>().join(", "));
            let r = rpki_verif::guard(|| -> Result<(), (&'static str, String)> {
                let mut model: Vec<usize> = vec![*start; fields[*kind]];
                let mut item = build(*kind, &model);
                let mut originals: Vec<(Payload, Vec<usize>)> = Vec::new();
                for op in seq { match op {
                    Op::Set(f, src) => { set(&mut item, *f, *src); model[*f] = *src }
                    Op::Clone => { let c = item.clone(); originals.push((std::mem::replace(&mut item, c), model.clone())) }
                    Op::Observe => observe(&item),
                } }
                originals.push((item, model));
                for (it, m) in &originals {
                    let twin = build(*kind, m);
                    let a = abs_of(&twin);
                    if abs_of(it) != a { return Err(("C07.forms.accessors", format!("the item answers {}, its fields were set to {}", abs_of(it).render(), a.render()))) }
                    same_item(it, &twin, true).map_err(|(o, d)| (o, format!("against the twin built in one go ({}): {d}", item_repr(&twin))))?;
                    for v in a.min_version()..=2 { for flags in [0u8, 1] {
                        let mut w = Vec::new();
                        write_vec(pdu::Payload::new(v, flags, it.as_ref()).write(&mut w)).map_err(|e| ("C07.forms.wire", e))?;
                        if w != a.wire(v, flags) { return Err(("C07.forms.wire", format!("version {v} flags {flags}: written {}", show(&w)))) }
                        let (p, _) = read_payload_slice(&w).map_err(|e| ("C07.forms.read_back", e))?;
                        let (_, back) = p.to_payload().map_err(|_| ("C07.forms.read_back", "to_payload rejects what the library wrote".to_string()))?;
                        let want = if flags == 0 { match it { Payload::Aspa(x) => Payload::Aspa(x.withdraw()), o => o.clone() } } else { it.clone() };
                        same_item(&back, &want, true).map_err(|(o, d)| (o, format!("version {v} flags {flags}: read back {} against {}: {d}", item_repr(&back), item_repr(&want))))?;
                    } }
                }
                Ok(())
            });
            match r {
                Ok(Ok(())) => acc.class(if edits { "final-state-only:after-assignments" } else { "final-state-only:no-assignment" }),
                Ok(Err((o, d))) => { acc.fail(o, wit, d); acc.class("violation") }
                Err(p) => { acc.fail("C07.forms.no_panic", wit, p); acc.class("violation") }
            }
        }
        acc
    }).collect();
    report(ctx, &sp, accs);
    // session states
    #[derive(Clone, Copy, Debug)] enum SOp { Inc, Add1, AddMax, Copy, Observe }
    let sops = [SOp::Inc, SOp::Add1, SOp::AddMax, SOp::Copy, SOp::Observe];
    let mut acc = Acc::default();
    let mut seqs: Vec<Vec<SOp>> = vec![vec![]];
    let mut layer: Vec<Vec<SOp>> = vec![vec![]];
    for _ in 0..3 { let mut next = Vec::new(); for sq in &layer { for o in &sops { let mut n = sq.clone(); n.push(*o); next.push(n) } } seqs.extend(next.iter().cloned()); layer = next; }
    for n0 in [0u32, 0x7FFF_FFFF, 0xFFFF_FFFE, 0xFFFF_FFFF] { for seq in &seqs {
        acc.evals += 1;
        let moves = seq.iter().any(|o| matches!(o, SOp::Inc | SOp::Add1 | SOp::AddMax));
        if moves { acc.nontrivial += 1 }
        let wit = || format!("history of a session state starting at serial {n0:#x}: {seq:?}");
        let r = rpki_verif::guard(|| -> Result<(), String> {
            let mut st = State::from_parts(0x0C07, Serial(n0));
            let mut n = n0;
            for o in seq { match o {
                SOp::Inc => { st.inc(); n = n.wrapping_add(1) }
                SOp::Add1 => { st = State::from_parts(st.session(), st.serial().add(1)); n = n.wrapping_add(1) }
                SOp::AddMax => { st = State::from_parts(st.session(), st.serial().add(0x7FFF_FFFF)); n = n.wrapping_add(0x7FFF_FFFF) }
                SOp::Copy => { let c = st; st = c }
                SOp::Observe => { let mut w = Vec::new(); let _ = write_vec(pdu::SerialNotify::new(1, st).write(&mut w)); let _ = (st.session(), st.serial() == Serial(n)); }
            } }
            if st.session() != 0x0C07 || st.serial().0 != n || st.serial() != Serial(n) || hash_std(&st.serial()) != hash_std(&Serial(n)) { return Err(format!("the state answers serial {:#x}, the model says {n:#x}", st.serial().0)) }
            let mut w = Vec::new();
            write_vec(pdu::SerialQuery::new(2, st).write(&mut w))?;
            if w != raw_control(2, 1, 0x0C07, &[n]) { return Err(format!("written as {}", hex(&w))) }
            Ok(())
        });
        match r {
            Ok(Ok(())) => acc.class(if moves { "state:final-serial-as-computed" } else { "state:unmoved" }),
            Ok(Err(d)) => { acc.fail("C07.forms.accessors", wit, d); acc.class("violation") }
            Err(p) => { acc.fail("C07.forms.no_panic", wit, p); acc.class("violation") }
        }
    } }
    report(ctx, &sp, vec![acc]);
    sp.sample_str(|| "history of an origin built as A: field#0:=B, clone, field#1:=C".to_string());
    sp.done(true, &format!("{} item sequences (3 kinds x 3 starts x all sequences of <= 3 operations) + 4 serials x all sequences of <= 3 state operations", jobs.len()));
}

/// What `EndOfData` etc. look like on the wire, written without the library.
fn raw_control(v: u8, ty: u8, session: u16, body: &[u32]) -> Vec<u8> {
    let mut o = vec![v, ty]; o.extend_from_slice(&session.to_be_bytes());
    o.extend_from_slice(&((8 + 4 * body.len()) as u32).to_be_bytes());
    for x in body { o.extend_from_slice(&x.to_be_bytes()) }
    o
}

fn judge_control_forms(acc: &mut Acc) {
    use arbitrary::{Arbitrary, Unstructured};
    // one group = the forms that must denote (session, serial); the clock-made states form groups of their own
    let mut groups: Vec<((u16, u32), Vec<(String, State)>)> = Vec::new();
    let twin_forms = |s: u16, n: u32| -> Vec<(String, State)> {
        let mut v = vec![
            ("State::from_parts(s, Serial(n))".to_string(), State::from_parts(s, Serial(n))),
            ("State::from_parts(s, Serial::from(n))".into(), State::from_parts(s, Serial::from(n))),
            ("State::from_parts(s, n.into())".into(), State::from_parts(s, n.into())),
            ("State::from_parts(s, Serial::from_be(n.to_be()))".into(), State::from_parts(s, Serial::from_be(n.to_be()))),
            ("from_parts(s, Serial(n-1)) then inc()".into(), { let mut st = State::from_parts(s, Serial(n.wrapping_sub(1))); st.inc(); st }),
            ("from_parts(s, Serial(n-(2^31-1)).add(2^31-1))".into(), State::from_parts(s, Serial(n.wrapping_sub(0x7FFF_FFFF)).add(0x7FFF_FFFF))),
            ("from_parts(s, Serial(n).add(0))".into(), State::from_parts(s, Serial(n).add(0))),
        ];
        if let Ok(x) = Serial::from_str(&n.to_string()) { v.push(("State::from_parts(s, Serial::from_str)".into(), State::from_parts(s, x))) }
        if n == 0 { v.push(("State::from_parts(s, Serial::default())".into(), State::from_parts(s, Serial::default()))) }
        v
    };
    for s in [0u16, 1, 0x8000, 0xFFFF] { for n in [0u32, 1, 0x7FFF_FFFF, 0x8000_0000, 0xFFFF_FFFF] {
        let mut forms = twin_forms(s, n);
        // drawn: the two octet orders an implementation might use
        for d in [[&s.to_le_bytes()[..], &n.to_le_bytes()[..]].concat(), [&s.to_be_bytes()[..], &n.to_be_bytes()[..]].concat()] {
            if let Ok(st) = State::arbitrary(&mut Unstructured::new(&d)) { if st.session() == s && st.serial().0 == n { forms.push((format!("State::arbitrary(input {})", hex(&d)), st)) } }
            if let Ok(x) = Serial::arbitrary(&mut Unstructured::new(&d[2..])) { if x.0 == n { forms.push((format!("from_parts(s, Serial::arbitrary(input {}))", hex(&d[2..])), State::from_parts(s, x))) } }
        }
        groups.push(((s, n), forms));
    } }
    for (name, st) in [("State::new()", State::new()), ("State::default()", State::default()), ("State::new_with_serial(Serial(0xFFFFFFFF))", State::new_with_serial(Serial(0xFFFF_FFFF)))] {
        // the session comes from the clock: the twins are built for whatever it is, and it is kept out of anything that is printed
        let mut forms = vec![(name.to_string(), st)];
        forms.extend(twin_forms(st.session(), st.serial().0));
        groups.push(((st.session(), st.serial().0), forms));
    }
    let timing = Timing { refresh: 11, retry: 22, expire: 33 };
    for ((s, n), forms) in &groups {
        let clock = forms[0].0.starts_with("State::new") || forms[0].0.starts_with("State::default");
        for (fi, (name, st)) in forms.iter().enumerate() {
            let shown = if clock { format!("session=<clock> serial={n:#x}") } else { format!("session={s:#x} serial={n:#x}") };
            let wit = || format!("{shown} form={name}");
            if fi > 0 { acc.nontrivial += 1 }
            let mut ok = true;
            if st.session() != *s || st.serial().0 != *n || st.serial() != Serial(*n) || u32::from(st.serial()) != *n || st.serial().to_string() != n.to_string() {
                acc.fail("C07.forms.accessors", wit, format!("the state built answers session {:#x} serial {:#x}", st.session(), st.serial().0)); ok = false;
            }
            for v in 0u8..=2 {
                // (carrier, octets written, expected octets, what is read back as (session, serial))
                type Back = Option<(Option<u16>, Option<Serial>, Option<Timing>)>;
                let rd = |w: &[u8], which: u8| -> Back {
                    let mut r: &[u8] = w;
                    let x = match which {
                        0 => pdu::SerialNotify::read(&mut r).now_or_never()?.ok().map(|p| (Some(p.session()), None, None)),
                        1 => pdu::SerialQuery::read(&mut r).now_or_never()?.ok().map(|p| (Some(p.session()), None, None)),
                        2 => pdu::CacheResponse::read(&mut r).now_or_never()?.ok().map(|p| (Some(p.session()), None, None)),
                        3 => pdu::EndOfDataV0::read(&mut r).now_or_never()?.ok().map(|p| (Some(p.session()), Some(p.serial()), None)),
                        4 => pdu::EndOfDataV1::read(&mut r).now_or_never()?.ok().map(|p| (Some(p.session()), Some(p.serial()), Some(p.timing()))),
                        _ => match pdu::Payload::read(&mut r).now_or_never()?.ok()? { Err(e) => Some((Some(e.state().session()), Some(e.state().serial()), e.timing())), Ok(_) => None },
                    };
                    if r.is_empty() { x } else { None }
                };
                let mut cases: Vec<(&'static str, Vec<u8>, Vec<u8>, u8)> = Vec::new();
                let w = |f: &dyn Fn(&mut Vec<u8>) -> Result<(), String>| -> Vec<u8> { let mut o = Vec::new(); let _ = f(&mut o); o };
                cases.push(("SerialNotify::new", w(&|o| write_vec(pdu::SerialNotify::new(v, *st).write(o))), raw_control(v, 0, *s, &[*n]), 0));
                cases.push(("SerialQuery::new", w(&|o| write_vec(pdu::SerialQuery::new(v, *st).write(o))), raw_control(v, 1, *s, &[*n]), 1));
                cases.push(("CacheResponse::new", w(&|o| write_vec(pdu::CacheResponse::new(v, *st).write(o))), raw_control(v, 3, *s, &[]), 2));
                if v == 0 {
                    cases.push(("EndOfDataV0::new", w(&|o| write_vec(pdu::EndOfDataV0::new(*st).write(o))), raw_control(0, 7, *s, &[*n]), 3));
                    cases.push(("EndOfData::new(0, ..)", w(&|o| write_vec(pdu::EndOfData::new(0, *st, timing).write(o))), raw_control(0, 7, *s, &[*n]), 5));
                } else {
                    cases.push(("EndOfDataV1::new", w(&|o| write_vec(pdu::EndOfDataV1::new(v, *st, timing).write(o))), raw_control(v, 7, *s, &[*n, 11, 22, 33]), 4));
                    cases.push(("EndOfData::new(v, ..)", w(&|o| write_vec(pdu::EndOfData::new(v, *st, timing).write(o))), raw_control(v, 7, *s, &[*n, 11, 22, 33]), 5));
                }
                for (carrier, wire, want, which) in cases {
                    acc.evals += 1;
                    let wit = || format!("{shown} form={name} carrier={carrier} version={v}");
                    if wire != want { acc.fail("C07.forms.wire", wit, if clock { "octets written differ from the independent encoding".to_string() } else { format!("written {} expected {}", hex(&wire), hex(&want)) }); ok = false; continue }
                    match rd(&wire, which) {
                        None => { acc.fail("C07.forms.read_back", wit, "what the library wrote does not read back (or octets are left over)".into()); ok = false }
                        Some((sess, ser, tim)) => {
                            let ser_ok = ser.map(|x| x == Serial(*n) && Serial(*n) == x && x == *n && hash_std(&x) == hash_std(&Serial(*n)) && hash_fnv(&x) == hash_fnv(&st.serial())
                                && x.partial_cmp(&st.serial()) == Some(std::cmp::Ordering::Equal) && x.0 == *n).unwrap_or(true);
                            let tim_ok = match (which, tim) { (4, Some(t)) => timing_eq(t, 11, 22, 33), (5, Some(t)) => v > 0 && timing_eq(t, 11, 22, 33), (5, None) => v == 0, (4, None) => false, _ => true };
                            if sess != Some(*s) || !ser_ok || !tim_ok {
                                acc.fail("C07.forms.read_back", wit, if clock { "session / serial / timing read back differ from the ones written".to_string() } else { format!("read back session {sess:?} serial {ser:?} timing {tim:?}") }); ok = false;
                            }
                        }
                    }
                }
            }
            acc.class(if !ok { "violation" } else if fi == 0 && !clock { "state:plain-constructor" } else if clock && fi == 0 { "state:clock-made" } else { "state:other-form" });
        }
    }
    // Timing
    for (r, y, e) in [(3600u32, 600u32, 7200u32), (0, 0, 0), (1, 600, 7200), (3600, 2, 7200), (3600, 600, 3), (0xFFFF_FFFF, 0x8000_0000, 0x7FFF_FFFF)] {
        let d = Timing::default();
        let mut forms: Vec<(&'static str, Timing)> = vec![("Timing{..}", Timing { refresh: r, retry: y, expire: e })];
        forms.push(("fields assigned on the default", { let mut t = Timing::default(); t.expire = e; t.retry = y; t.refresh = r; t }));
        forms.push(("copied", { let t = Timing { refresh: r, retry: y, expire: e }; let u = t; u }));
        if (r, y, e) == (d.refresh, d.retry, d.expire) { forms.push(("Timing::default()", Timing::default())) }
        if (y, e) == (d.retry, d.expire) { forms.push(("Timing{refresh, ..Default::default()}", Timing { refresh: r, ..Default::default() })) }
        if (r, e) == (d.refresh, d.expire) { forms.push(("Timing{retry, ..Default::default()}", Timing { retry: y, ..Default::default() })) }
        if (r, y) == (d.refresh, d.retry) { forms.push(("Timing{expire, ..Default::default()}", Timing { expire: e, ..Default::default() })) }
        for (fi, (name, t)) in forms.iter().enumerate() {
            if fi > 0 { acc.nontrivial += 1 }
            let mut ok = true;
            for v in 1u8..=2 { for via in [false, true] {
                acc.evals += 1;
                let wit = || format!("timing=({r},{y},{e}) form={name} carrier={} version={v}", if via { "EndOfData::new" } else { "EndOfDataV1::new" });
                let st = State::from_parts(0x55AA, Serial(9));
                let mut wire = Vec::new();
                let wr = if via { write_vec(pdu::EndOfData::new(v, st, *t).write(&mut wire)) } else { write_vec(pdu::EndOfDataV1::new(v, st, *t).write(&mut wire)) };
                if wr.is_err() || wire != raw_control(v, 7, 0x55AA, &[9, r, y, e]) { acc.fail("C07.forms.wire", wit, format!("written {}", hex(&wire))); ok = false; continue }
                let mut rd: &[u8] = &wire;
                let back = pdu::Payload::read(&mut rd).now_or_never().and_then(|x| x.ok()).and_then(|x| x.err()).and_then(|eod| eod.timing());
                let mut rd2: &[u8] = &wire;
                let back2 = pdu::EndOfDataV1::read(&mut rd2).now_or_never().and_then(|x| x.ok()).map(|p| p.timing());
                let good = |b: Option<Timing>| b.map(|b| timing_eq(b, r, y, e) && b.refresh_duration() == std::time::Duration::from_secs(r as u64)).unwrap_or(false);
                if !good(back) || !good(back2) || t.refresh_duration().as_secs() != r as u64 { acc.fail("C07.forms.read_back", wit, format!("timing read back {back:?} / {back2:?}")); ok = false }
            } }
            acc.class(if !ok { "violation" } else if fi == 0 { "timing:literal" } else { "timing:other-form" });
        }
    }
    // Action
    let item = Payload::origin(MaxLenPrefix::new(Prefix::new_v4(Ipv4Addr::from(0x0A00_0000), 8).unwrap(), Some(8)).unwrap(), Asn::from_u32(5));
    for flags in 0u16..=255 {
        let flags = flags as u8;
        let want = if flags & 1 == 1 { Action::Announce } else { Action::Withdraw };
        let mut forms: Vec<(String, Action)> = vec![(format!("Action::from_flags({flags:#x})"), Action::from_flags(flags))];
        if let Ok(a) = Action::arbitrary(&mut Unstructured::new(&[flags])) { forms.push((format!("Action::arbitrary(input {flags:02x})"), a)) }
        for (name, a) in forms {
            acc.evals += 1;
            if flags > 1 { acc.nontrivial += 1 }
            let drawn = name.starts_with("Action::arb");
            let target = if drawn { a } else { want };
            let wit = || format!("action form={name}");
            let mut ok = true;
            if !drawn && a != want { acc.fail("C07.forms.accessors", wit, format!("{a:?}")); ok = false }
            if same_law(&a, &target, true).is_err() || a.into_flags() != target.is_announce() as u8 || a.is_announce() == a.is_withdraw() { acc.fail("C07.forms.equal", wit, format!("{a:?} against the literal {target:?}")); ok = false }
            for v in 0u8..=2 {
                let mut wire = Vec::new();
                let _ = write_vec(pdu::Payload::new(v, a.into_flags(), item.as_ref()).write(&mut wire));
                let back = read_payload_slice(&wire).ok().and_then(|(p, _)| p.to_payload().ok());
                if wire.get(8) != Some(&(target.is_announce() as u8)) || back.as_ref().map(|(b, _)| *b) != Some(target) || back.map(|(_, i)| i) != Some(item.clone()) {
                    acc.fail("C07.forms.read_back", wit, format!("version {v}: written {}", hex(&wire))); ok = false;
                }
            }
            acc.class(if !ok { "violation" } else if drawn { "action:drawn" } else { "action:from-flags" });
        }
    }
}

//------------ the server connection as a reader of queries ---------------------
//
// `Server::run` is one more reader of the PDUs the library writes: a query
// must reach the payload source with the session and serial it was written
// with, however the octets arrive and whatever else the connection has to
// attend to between two chunks.

const SRC_SESSION: u16 = 0x5EED;
const SRC_SERIAL: u32 = 0x0102_0304;
const SRC_TIMING: (u32, u32, u32) = (7, 8, 9);

/// What the source was asked for.
#[derive(Clone, Debug, PartialEq, Eq)]
enum Asked { Full, Diff(u16, u32) }

/// A source that records what it is asked and answers a serial query with
/// one origin made from the session and serial it was handed (so that the
/// response shows which query it answers).
#[derive(Clone)]
struct EchoSrc { asked: Arc<Mutex<Vec<Asked>>> }

struct EchoIter { item: Option<Payload> }

impl PayloadSet for EchoIter { fn next(&mut self) -> Option<PayloadRef<'_>> { self.item.take().map(|p| match p { Payload::Origin(o) => PayloadRef::Origin(o), _ => unreachable!() }) } }
impl PayloadDiff for EchoIter { fn next(&mut self) -> Option<(PayloadRef<'_>, Action)> { PayloadSet::next(self).map(|p| (p, Action::Announce)) } }

fn echo_addr(session: u16) -> u32 { 0x0A00_0000 | ((session as u32) << 8) }
const FULL_ADDR: u32 = 0xC000_0200;
const FULL_ASN: u32 = 0xF011;

impl PayloadSource for EchoSrc {
    type Set = EchoIter;
    type Diff = EchoIter;
    fn ready(&self) -> bool { true }
    fn notify(&self) -> State { st(SRC_SESSION, SRC_SERIAL) }
    fn full(&self) -> (State, EchoIter) {
        self.asked.lock().unwrap().push(Asked::Full);
        (st(SRC_SESSION, SRC_SERIAL), EchoIter { item: Some(forms_of_plain(&Abs::Origin { v6: false, addr: FULL_ADDR as u128, plen: 24, mlen: 24, asn: FULL_ASN })) })
    }
    fn diff(&self, state: State) -> Option<(State, EchoIter)> {
        self.asked.lock().unwrap().push(Asked::Diff(state.session(), state.serial().0));
        Some((st(SRC_SESSION, SRC_SERIAL), EchoIter { item: Some(forms_of_plain(&Abs::Origin { v6: false, addr: echo_addr(state.session()) as u128, plen: 24, mlen: 24, asn: state.serial().0 })) }))
    }
    fn timing(&self) -> Timing { Timing { refresh: SRC_TIMING.0, retry: SRC_TIMING.1, expire: SRC_TIMING.2 } }
}

/// The response the echo source's server owes to one query, written without the library.
fn echo_response(v: u8, q: &Asked) -> Vec<u8> {
    let mut o = raw_control(v, 3, SRC_SESSION, &[]);
    let (addr, asn) = match q { Asked::Full => (FULL_ADDR, FULL_ASN), Asked::Diff(s, n) => (echo_addr(*s), *n) };
    o.extend(Abs::Origin { v6: false, addr: addr as u128, plen: 24, mlen: 24, asn }.wire(v, 1));
    if v == 0 { o.extend(raw_control(0, 7, SRC_SESSION, &[SRC_SERIAL])) } else { o.extend(raw_control(v, 7, SRC_SESSION, &[SRC_SERIAL, SRC_TIMING.0, SRC_TIMING.1, SRC_TIMING.2])) }
    o
}

/// Observations of one run of the real server over one scripted connection.
#[derive(Clone, Debug)]
struct ServerRun { asked: Vec<Asked>, out: Vec<u8>, consumed: u64, conn_ended: bool, panicked: bool, livelock: bool, spin: bool, flood: bool, server_ended: bool }

fn exec_server(stream_bytes: &[u8], script: &[Ev]) -> ServerRun {
    let run = SCHED.with(|s| s.borrow().run(async {
        let (sock, ctl) = sock_pair();
        let mut notify = NotifySender::new();
        let src = EchoSrc { asked: Arc::new(Mutex::new(Vec::new())) };
        let server = Server::new(futures_util::stream::iter(vec![Ok::<_, io::Error>(sock)]), notify.clone(), src.clone());
        let h = tokio::spawn(server.run());
        // the connection task starts and parks in its first receive
        let q0 = quiesce(&[&ctl]).await;
        let tr = play(&ctl, stream_bytes, Some(&mut notify), script).await;
        let q1 = quiesce(&[&ctl]).await;
        let asked = src.asked.lock().unwrap().clone();
        ServerRun { asked, out: ctl.output(), consumed: ctl.consumed(), conn_ended: ctl.dropped(), panicked: ctl.dropped_in_panic(),
            livelock: ctl.livelock(), spin: q0.spin || tr.spin || q1.spin, flood: ctl.flood(), server_ended: h.is_finished() }
    }));
    if !run.conn_ended || !run.server_ended {
        // a task is left behind in the runtime: the next run starts from a clean one
        SCHED.with(|s| *s.borrow_mut() = Sched::new());
    }
    run
}

/// What a query stream is on the wire, per the grammar of the two query PDUs.
#[derive(Clone, Debug, PartialEq, Eq)]
enum QExp { Query(u8, Asked), Violation(&'static str) }

fn query_grammar(b: &[u8]) -> QExp {
    if b.len() < 8 { return QExp::Violation("ends inside the header") }
    let (v, ty, session, len) = (b[0], b[1], u16::from_be_bytes([b[2], b[3]]), u32::from_be_bytes([b[4], b[5], b[6], b[7]]));
    if v > 2 { return QExp::Violation("version above 2") }
    match ty {
        1 if len == 12 => if b.len() >= 12 { QExp::Query(v, Asked::Diff(session, u32::from_be_bytes([b[8], b[9], b[10], b[11]]))) } else { QExp::Violation("ends inside the serial") },
        2 if len == 8 => QExp::Query(v, Asked::Full),
        1 | 2 => QExp::Violation("wrong length"),
        _ => QExp::Violation("not a query type"),
    }
}

/// Removes the Serial Notify PDUs from what the server wrote; they must be
/// well-formed notifications of the source's state.
fn strip_notifies(out: &[u8], versions: &[u8]) -> Result<(Vec<u8>, usize), String> {
    let pdus = split_sent(out).ok_or_else(|| format!("the output is not a sequence of PDUs: {}", show(out)))?;
    let (mut rest, mut n) = (Vec::new(), 0);
    for p in pdus {
        if p[1] == 0 {
            if p.len() != 12 || !versions.contains(&p[0]) || p[2..4] != SRC_SESSION.to_be_bytes() || p[8..12] != SRC_SERIAL.to_be_bytes() { return Err(format!("malformed serial notify {}", hex(p))) }
            n += 1;
        } else { rest.extend_from_slice(p) }
    }
    Ok((rest, n))
}

/// Chunk sizes -> every script with a notification in any subset of the
/// gaps (before the first chunk, between two chunks, after the last), as a
/// batch of its own or in the batch of the chunk that follows; then close.
fn notify_schedules(sizes: &[usize], out: &mut Vec<Vec<Ev>>) {
    let k = sizes.len();
    for subset in 0u32..(1 << (k + 1)) {
        for batched in [false, true] {
            if batched && subset & ((1 << k) - 1) == 0 { continue }
            let mut sc = Vec::new();
            for (i, c) in sizes.iter().enumerate() {
                if subset >> i & 1 == 1 { sc.push(Ev::Notify); if !batched { sc.push(Ev::Settle) } }
                sc.push(Ev::Deliver(*c)); sc.push(Ev::Settle);
            }
            if subset >> k & 1 == 1 { sc.push(Ev::Notify); sc.push(Ev::Settle) }
            sc.push(Ev::Close); sc.push(Ev::Settle);
            out.push(sc);
        }
    }
}

/// All ways to cut `len` octets into <= max_cuts+1 chunks.
fn chunkings(len: usize, max_cuts: usize) -> Vec<Vec<usize>> {
    let mut out = vec![vec![len]];
    if max_cuts >= 1 { for a in 1..len { out.push(vec![a, len - a]) } }
    if max_cuts >= 2 { for a in 1..len { for b in a + 1..len { out.push(vec![a, b - a, len - b]) } } }
    out
}

/// One run of the server route. `queries`: the written values the stream is made of.
fn judge_server_route(acc: &mut Acc, what: &str, stream: &[u8], script: &[Ev]) {
    let wit = || format!("server {what} bytes={} sched={}", show(stream), render_script(script));
    if skip_for_replay(script, &wit) { return }
    let run = exec_server(stream, script);
    acc.evals += 1;
    let notifies = script.iter().filter(|e| matches!(e, Ev::Notify)).count();
    let delivered: usize = script.iter().map(|e| if let Ev::Deliver(k) = e { *k } else { 0 }).sum();
    let cuts = script.iter().filter(|e| matches!(e, Ev::Deliver(_))).count();
    if notifies > 0 && cuts > 1 { acc.nontrivial += 1 }
    let mut ok = true;
    if run.panicked { acc.fail("C07.route.server.no_panic", &wit, "the connection task panicked".into()); ok = false }
    if run.livelock || run.spin { acc.fail("C07.route.server.no_hang", &wit, "the connection keeps polling after the client has closed (livelock / spin guard)".into()); ok = false }
    if run.flood { acc.fail("C07.route.server.no_hang", &wit, "the connection writes without end (output cap)".into()); ok = false }
    if !run.conn_ended && !run.panicked { acc.fail("C07.route.server.no_hang", &wit, "the connection is still open at quiescence after the client has closed".into()); ok = false }
    // the model: the stream as a sequence of queries up to the first violation
    let seen = &stream[..delivered.min(stream.len())];
    let (mut want_asked, mut want_out, mut versions, mut p, mut violation) = (Vec::new(), Vec::new(), vec![0u8], 0usize, None);
    while p < seen.len() {
        match query_grammar(&seen[p..]) {
            QExp::Query(v, q) => {
                // the version of a connection is the one of its first query
                if versions.len() > 1 && versions[1] != v { violation = Some("version differs from the first query"); break }
                if versions.len() == 1 { versions.push(v) }
                want_out.extend(echo_response(v, &q));
                p += if q == Asked::Full { 8 } else { 12 };
                want_asked.push(q);
            }
            QExp::Violation(why) => { violation = Some(why); break }
        }
    }
    if run.asked != want_asked {
        acc.fail("C07.route.server.same_query", &wit, format!("the payload source was asked {:?}; the stream carries {:?}{}", run.asked, want_asked, violation.map(|w| format!(" and then a violation ({w})")).unwrap_or_default()));
        ok = false;
    }
    // a notification is announced in the version of the connection: 0 until the first complete header has set it
    if versions.len() == 1 && seen.len() >= 8 && seen[0] <= 2 { versions.push(seen[0]) }
    match strip_notifies(&run.out, &versions) {
        Err(d) => { acc.fail("C07.route.server.response", &wit, d); ok = false }
        Ok((rest, n)) => {
            if n > notifies { acc.fail("C07.route.server.response", &wit, format!("{n} serial notifies for {notifies} notifications")); ok = false }
            if !rest.starts_with(&want_out) {
                acc.fail("C07.route.server.response", &wit, format!("the responses are not the ones for the queries written: got {} expected {}", show(&rest), show(&want_out))); ok = false;
            } else {
                let tail = &rest[want_out.len()..];
                match violation {
                    None => if !tail.is_empty() { acc.fail("C07.route.server.response", &wit, format!("{} octets after the responses: {}", tail.len(), show(tail))); ok = false },
                    // a violation is answered with an error report or by closing, never with data
                    Some(why) => if !tail.is_empty() && tail[1] != 10 { acc.fail("C07.route.server.error_expected", &wit, format!("the stream goes wrong ({why}) and is answered with {}", show(tail))); ok = false },
                }
            }
        }
    }
    if violation.is_none() && run.consumed != seen.len() as u64 { acc.fail("C07.route.server.response", &wit, format!("{} of {} octets consumed", run.consumed, seen.len())); ok = false }
    acc.class(if !ok { "violation" } else if violation.is_some() { "violation-in-stream:no-data-served" } else if notifies > 0 { "queries-read-as-written:with-notifications" } else { "queries-read-as-written" });
}

fn space_server_route(ctx: &Ctx) {
    let thorough = ctx.tier.is_thorough();
    let sp = ctx.space("route.server",
        "the real Server::run over a scripted connection as a reader of query PDUs: every Serial Query (versions 0-2 x 5 sessions x 5 serials) and Reset Query written by the library's writers, and the queries the real Client writes (reset / serial, initial versions 0-2), delivered under every fragmentation into <= 3 chunks (quick: <= 2 chunks for 16 of the 25 session/serial pairs of each version) x a notification (NotifySender::notify) in every subset of the gaps before / between / after the chunks, as a batch of its own and in the batch of the chunk that follows; streams of two queries (serial+reset, reset+serial, serial+serial) likewise (quick: <= 2 chunks for versions 0 and 2); every truncation of a query (closed after k octets) and every single header-field corruption of a query under the <= 2-chunk schedules; oracle: the payload source is asked exactly the (session, serial) / reset that was written, in order, the octets written back (serial notifies set aside, each a well-formed notify of the source's state) are exactly the responses for those queries (the source answers a serial query with an origin made of the session and serial it was handed), everything is consumed, a violation is never answered with data, the connection ends when the client closes; non-trivial = runs with >= 2 chunks and >= 1 notification");
    struct Job { what: String, stream: Vec<u8>, max_cuts: usize, cut_stream: bool }
    let setup = rpki_verif::guard(|| {
        let mut jobs: Vec<Job> = Vec::new();
        let lib = |val: &Val| val.build().wire();
        for v in 0u8..=2 {
            for (i, &session) in SESSIONS.iter().enumerate() { for (j, &serial) in U32S.iter().enumerate() {
                let val = Val::SerialQuery { v, session, serial };
                let deep = thorough || i == j || (i + j) % 5 == 0;
                jobs.push(Job { what: format!("query={} writer=SerialQuery::write", val.render()), stream: lib(&val), max_cuts: if deep { 2 } else { 1 }, cut_stream: false });
            } }
            jobs.push(Job { what: format!("query=ResetQuery{{v:{v}}} writer=ResetQuery::write"), stream: lib(&Val::ResetQuery { v }), max_cuts: 2, cut_stream: false });
            // what the real client writes
            for state in [None, Some((0xA1B2u16, 0xC3D4_E5F6u32))] {
                let sent = exec_client(v, state, &[], &[Ev::Close, Ev::Settle]).sent;
                let twin = match state { None => lib(&Val::ResetQuery { v }), Some((session, serial)) => lib(&Val::SerialQuery { v, session, serial }) };
                jobs.push(Job { what: format!("query={} writer=Client::step(initial version {v}){}", if state.is_some() { "serial(0xa1b2,0xc3d4e5f6)" } else { "reset" },
                    if sent == twin { "" } else { " [differs from the PDU's own writer]" }), stream: sent, max_cuts: 2, cut_stream: false });
            }
            // two queries in one stream
            let (a, b, r) = (lib(&Val::SerialQuery { v, session: 0x1234, serial: 0xDEAD_BEEF }), lib(&Val::SerialQuery { v, session: 0xFFFE, serial: 1 }), lib(&Val::ResetQuery { v }));
            for (n, x, y) in [("serial+reset", &a, &r), ("reset+serial", &r, &a), ("serial+serial", &a, &b)] {
                jobs.push(Job { what: format!("queries={n} version={v}"), stream: [&x[..], &y[..]].concat(), max_cuts: if thorough || v == 1 { 2 } else { 1 }, cut_stream: false });
            }
            // truncations and corruptions of single queries
            for (n, w) in [("serial", &a), ("reset", &r)] {
                jobs.push(Job { what: format!("query={n} version={v} truncated"), stream: w.clone(), max_cuts: 1, cut_stream: true });
                for (c, bytes) in corruptions(w) {
                    jobs.push(Job { what: format!("query={n} version={v} {c}"), stream: bytes, max_cuts: 1, cut_stream: false });
                }
            }
        }
        jobs
    });
    let jobs = match setup {
        Ok(j) => j,
        Err(p) => { sp.eval(); ctx.fail("C07.route.server.no_panic", "writing the queries", p); sp.done(false, "stopped: the queries cannot be written"); return }
    };
    let accs: Vec<Acc> = jobs.par_iter().map(|job| {
        let mut acc = Acc::default();
        let lens: Vec<usize> = if job.cut_stream { (0..job.stream.len()).collect() } else { vec![job.stream.len()] };
        for len in lens {
            let mut scripts = Vec::new();
            if len == 0 { notify_schedules(&[], &mut scripts) }
            else { for sizes in chunkings(len, job.max_cuts) { notify_schedules(&sizes, &mut scripts) } }
            for sc in &scripts { judge_server_route(&mut acc, &job.what, &job.stream[..len], sc) }
        }
        acc
    }).collect();
    report(ctx, &sp, accs);
    sp.set("streams", serde_json::json!(jobs.len()));
    sp.sample_str(|| { let mut v = Vec::new(); notify_schedules(&[4, 8], &mut v); format!("{} sched={}", jobs[13].what, render_script(&v[5])) });
    sp.done(true, &format!("{} query streams x fragmentations into <= 3 chunks (<= 2 for most in quick) x notifications in every subset of the gaps x 2 batchings", jobs.len()));
}

//------------ the real client against the real server --------------------------
//
// Both ends are the library: whatever the server writes the client must read
// back as the source's data, and whatever the client writes must reach the
// source as the client's state -- under every fragmentation of every message
// in either direction, and with the client's own refresh timer running out
// between two chunks of a Serial Notify.

const E_SESSION: u16 = 0x0E2E;
const E_SERIAL: u32 = 0xFFFF_FFFE;
const E_TIMING: (u32, u32, u32) = (40, 41, 42);

struct E2eState { serial: u32, full: Vec<Payload>, diff_from_prev: Vec<(Action, Payload)> }
struct E2eShared { states: Vec<E2eState>, cur: std::sync::atomic::AtomicUsize, asked: Mutex<Vec<Asked>> }
#[derive(Clone)]
struct E2eSrc(Arc<E2eShared>);
struct E2eIter { data: Arc<E2eShared>, state: usize, diff: Option<bool>, pos: usize }

impl PayloadSet for E2eIter {
    fn next(&mut self) -> Option<PayloadRef<'_>> { let i = self.pos; self.pos += 1; self.data.states[self.state].full.get(i).map(|p| p.as_ref()) }
}
impl PayloadDiff for E2eIter {
    fn next(&mut self) -> Option<(PayloadRef<'_>, Action)> {
        if self.diff != Some(true) { return None }
        let i = self.pos; self.pos += 1; self.data.states[self.state].diff_from_prev.get(i).map(|(a, p)| (p.as_ref(), *a))
    }
}
impl E2eSrc {
    fn cur(&self) -> usize { self.0.cur.load(std::sync::atomic::Ordering::SeqCst) }
    fn advance(&self) { if self.cur() + 1 < self.0.states.len() { self.0.cur.fetch_add(1, std::sync::atomic::Ordering::SeqCst); } }
}
impl PayloadSource for E2eSrc {
    type Set = E2eIter;
    type Diff = E2eIter;
    fn ready(&self) -> bool { true }
    fn notify(&self) -> State { st(E_SESSION, self.0.states[self.cur()].serial) }
    fn full(&self) -> (State, E2eIter) {
        self.0.asked.lock().unwrap().push(Asked::Full);
        let c = self.cur();
        (st(E_SESSION, self.0.states[c].serial), E2eIter { data: self.0.clone(), state: c, diff: None, pos: 0 })
    }
    fn diff(&self, state: State) -> Option<(State, E2eIter)> {
        self.0.asked.lock().unwrap().push(Asked::Diff(state.session(), state.serial().0));
        if state.session() != E_SESSION { return None }
        let c = self.cur();
        let here = self.0.states[c].serial;
        if state.serial().0 == here { return Some((st(E_SESSION, here), E2eIter { data: self.0.clone(), state: c, diff: Some(false), pos: 0 })) }
        if state.serial().0 == here.wrapping_sub(1) { return Some((st(E_SESSION, here), E2eIter { data: self.0.clone(), state: c, diff: Some(true), pos: 0 })) }
        None
    }
    fn timing(&self) -> Timing { Timing { refresh: E_TIMING.0, retry: E_TIMING.1, expire: E_TIMING.2 } }
}

/// The two states of the end-to-end source, as items written down plainly.
fn e2e_data() -> Vec<(u32, Vec<Abs>, Vec<(bool, Abs)>)> {
    let ski = { let mut k = [0u8; 20]; for (i, b) in k.iter_mut().enumerate() { *b = 0xE0 | i as u8 } k };
    let o4 = Abs::Origin { v6: false, addr: 0x0A14_0000, plen: 16, mlen: 24, asn: 65010 };
    let o4b = Abs::Origin { v6: false, addr: 0xC633_6400, plen: 24, mlen: 24, asn: 65011 };
    let o6 = Abs::Origin { v6: true, addr: 0x2001_0db8u128 << 96, plen: 32, mlen: 48, asn: 0xFFFF_FFFF };
    let key = Abs::Key { ski, asn: 65012, info: vec![1, 2, 3, 4, 5, 6, 7] };
    let aspa = Abs::Aspa { customer: 65013, providers: vec![65014, 65015, 65016] };
    vec![
        (E_SERIAL, vec![o4.clone(), o6.clone(), key.clone(), aspa.clone()], vec![(true, o4.clone()), (false, o4b.clone()), (true, key.clone()), (false, aspa.clone())]),
        (E_SERIAL.wrapping_add(1), vec![o4.clone(), o4b.clone(), o6.clone(), aspa.clone()], vec![(true, o4b), (false, key), (false, o6), (true, aspa)]),
    ]
}

/// What the client's target must have been handed for a reply carrying these items in version `v`.
fn e2e_seen(v: u8, items: &[(bool, Abs)]) -> Vec<(Action, Payload)> {
    items.iter().filter(|(_, a)| a.min_version() <= v).map(|(ann, a)| {
        let p = forms_of_plain(a);
        if *ann { (Action::Announce, p) } else { (Action::Withdraw, match p { Payload::Aspa(x) => Payload::Aspa(x.withdraw()), other => other }) }
    }).collect()
}

/// One end-to-end run: which message (in order of appearance on the link) is
/// cut where, and before which chunk of it the clock passes the client's refresh time.
#[derive(Clone, Debug, Default)]
struct Plan { v: u8, start: Option<(u16, u32)>, steps: usize, msg: usize, sizes: Vec<usize>, tick_before: Option<usize> }

#[derive(Clone, Debug)]
struct E2eRun {
    /// Per completed client step: result, and what the target had received by then.
    steps: Vec<Result<(), String>>,
    applied: Vec<(bool, Vec<(Action, Payload)>, (u32, u32, u32))>,
    state: Option<(u16, u32)>,
    asked: Vec<Asked>,
    /// The messages that crossed the link: (client to server?, octets).
    msgs: Vec<(bool, Vec<u8>)>,
    client_end: End,
    panicked_conn: bool,
    spin: bool,
}

fn exec_e2e(plan: &Plan) -> E2eRun {
    let data = e2e_data();
    let plan = plan.clone();
    let run = SCHED.with(|s| s.borrow().run(async move {
        let (csock, cctl) = sock_pair();
        let (ssock, sctl) = sock_pair();
        let src = E2eSrc(Arc::new(E2eShared {
            states: data.iter().map(|(serial, full, diff)| E2eState { serial: *serial, full: full.iter().map(forms_of_plain).collect(),
                diff_from_prev: diff.iter().map(|(ann, a)| (if *ann { Action::Announce } else { Action::Withdraw }, forms_of_plain(a))).collect() }).collect(),
            cur: std::sync::atomic::AtomicUsize::new(0), asked: Mutex::new(Vec::new()) }));
        let mut notify = NotifySender::new();
        let server = Server::new(futures_util::stream::iter(vec![Ok::<_, io::Error>(ssock)]), notify.clone(), src.clone());
        let sh = tokio::spawn(server.run());
        let done: Arc<Mutex<Vec<Result<(), String>>>> = Arc::new(Mutex::new(Vec::new()));
        let (done2, steps, v, start) = (done.clone(), plan.steps, plan.v, plan.start);
        let ch = tokio::spawn(async move {
            let mut client = Client::with_initial_version(v, csock, Tgt::default(), start.map(|(s, n)| st(s, n)));
            for _ in 0..steps {
                let r = client.step().await.map_err(|e| err_text(&e));
                let failed = r.is_err();
                done2.lock().unwrap().push(r);
                if failed { break }
            }
            (std::mem::take(&mut client.target_mut().applied), client.state().map(|s| (s.session(), s.serial().0)))
        });
        let mut spin = false;
        let mut msgs: Vec<(bool, Vec<u8>)> = Vec::new();
        let mut notified = false;
        // carry messages across until nothing is in flight; bounded: an exchange has at most 7 messages
        for _ in 0..16 {
            spin |= quiesce(&[&cctl, &sctl]).await.spin;
            let (from, to, c2s) = if cctl.output_len() > 0 { (&cctl, &sctl, true) } else if sctl.output_len() > 0 { (&sctl, &cctl, false) } else {
                if plan.steps == 2 && !notified && done.lock().unwrap().len() == 1 && done.lock().unwrap()[0].is_ok() {
                    // the source moves on and says so
                    src.advance(); notify.notify(); notified = true; continue
                }
                break
            };
            let bytes = from.take_output();
            let idx = msgs.len();
            msgs.push((c2s, bytes.clone()));
            if idx == plan.msg && plan.sizes.iter().sum::<usize>() == bytes.len() {
                let mut off = 0;
                for (ci, k) in plan.sizes.iter().enumerate() {
                    if plan.tick_before == Some(ci) { tokio::time::advance(std::time::Duration::from_secs(if plan.v == 0 { 3600 } else { E_TIMING.0 as u64 } + 1)).await; spin |= quiesce(&[&cctl, &sctl]).await.spin; }
                    to.deliver(&bytes[off..off + k]); off += k;
                    spin |= quiesce(&[&cctl, &sctl]).await.spin;
                }
            } else { to.deliver(&bytes) }
        }
        // both sides hang up
        cctl.close(); sctl.close();
        spin |= quiesce(&[&cctl, &sctl]).await.spin;
        let (client_end, applied, state) = match join_within(ch, HORIZON).await {
            Joined::Done((applied, state)) => (End::Done, applied, state), Joined::Panicked(m) => (End::Panicked(m), vec![], None), Joined::Stuck => (End::Stuck, vec![], None),
        };
        spin |= quiesce(&[&cctl, &sctl]).await.spin;
        let clean = sctl.dropped() && sh.is_finished();
        let steps = done.lock().unwrap().clone();
        let asked = src.0.asked.lock().unwrap().clone();
        (E2eRun { steps, applied, state, asked, msgs, client_end, panicked_conn: sctl.dropped_in_panic(), spin }, clean)
    }));
    if !run.1 || run.0.client_end == End::Stuck { SCHED.with(|s| *s.borrow_mut() = Sched::new()) }
    run.0
}

fn render_plan(p: &Plan) -> String {
    format!("version={} start={} steps={} cut=message#{}:{:?}{}", p.v, match p.start { None => "reset".to_string(), Some((s, n)) => format!("serial({s:#x},{n:#x})") }, p.steps, p.msg, p.sizes,
        p.tick_before.map(|c| format!(" refresh-time-passes-before-chunk#{c}")).unwrap_or_default())
}

/// What the exchange must come to, from the plan and the source's data alone.
fn e2e_expect(p: &Plan) -> (Vec<(bool, Vec<(Action, Payload)>, (u32, u32, u32))>, Vec<Asked>, (u16, u32)) {
    let data = e2e_data();
    let all = |items: &[Abs]| -> Vec<(bool, Abs)> { items.iter().map(|a| (true, a.clone())).collect() };
    let (mut applied, mut asked) = (Vec::new(), Vec::new());
    // version 0 has no timing of its own: the client keeps its defaults
    let timing = if p.v == 0 { (3600, 600, 7200) } else { E_TIMING };
    match p.start {
        None => { asked.push(Asked::Full); applied.push((true, e2e_seen(p.v, &all(&data[0].1)), timing)) }
        Some((s, n)) => {
            asked.push(Asked::Diff(s, n));
            if s == E_SESSION && n == data[0].0.wrapping_sub(1) { applied.push((false, e2e_seen(p.v, &data[0].2), timing)) }
            else if s == E_SESSION && n == data[0].0 { applied.push((false, vec![], timing)) }
            else { asked.push(Asked::Full); applied.push((true, e2e_seen(p.v, &all(&data[0].1)), timing)) }
        }
    }
    let mut state = (E_SESSION, data[0].0);
    if p.steps == 2 {
        asked.push(Asked::Diff(E_SESSION, data[0].0));
        applied.push((false, e2e_seen(p.v, &data[1].2), timing));
        state = (E_SESSION, data[1].0);
    }
    (applied, asked, state)
}

fn judge_e2e(acc: &mut Acc, plan: &Plan) {
    let wit = || format!("end-to-end {}", render_plan(plan));
    if let Some(r) = REPLAY.get().and_then(|r| r.as_ref()) { if wit() != *r { return } }
    let run = exec_e2e(plan);
    acc.evals += 1;
    if plan.sizes.len() > 1 { acc.nontrivial += 1 }
    let mut ok = true;
    if let End::Panicked(m) = &run.client_end { acc.fail("C07.route.e2e.no_panic", &wit, m.clone()); ok = false }
    if run.panicked_conn { acc.fail("C07.route.e2e.no_panic", &wit, "the server's connection task panicked".into()); ok = false }
    if run.client_end == End::Stuck || run.spin { acc.fail("C07.route.e2e.no_hang", &wit, "the client is still pending after both sides have closed (or a task spins)".into()); ok = false }
    let (applied, asked, state) = e2e_expect(plan);
    let link = || run.msgs.iter().map(|(c2s, b)| format!("{}{}", if *c2s { "C>" } else { "S>" }, show(b))).collect::<Vec<_>>().join(" ");
    if run.steps.len() != plan.steps || run.steps.iter().any(|r| r.is_err()) {
        acc.fail("C07.route.e2e.client_reads_server", &wit, format!("steps ended {:?} although every PDU on the link was written by the library and arrived whole and in order; link: {}", run.steps, link())); ok = false;
    } else {
        if run.applied != applied { acc.fail("C07.route.e2e.client_reads_server", &wit, format!("the target received {} ; the source holds {}", trunc(&format!("{:?}", run.applied), 400), trunc(&format!("{applied:?}"), 400))); ok = false }
        if run.state != Some(state) { acc.fail("C07.route.e2e.client_reads_server", &wit, format!("client state {:?}, the source is at {:?}", run.state, state)); ok = false }
    }
    if ok && run.asked != asked { acc.fail("C07.route.e2e.server_reads_client", &wit, format!("the source was asked {:?}, the client had to ask {:?}; link: {}", run.asked, asked, link())); ok = false }
    acc.class(if !ok { "violation" } else if plan.tick_before.is_some() { "exchange-equal:refresh-timer-ran-out-inside-a-notify" } else if plan.steps == 2 { "exchange-equal:two-steps" } else { "exchange-equal:one-step" });
}

fn space_end_to_end(ctx: &Ctx) {
    let thorough = ctx.tier.is_thorough();
    let sp = ctx.space("route.end_to_end",
        "the real Client against the real Server::run over a link whose transfer moments the driver controls: versions 0-2 x client start (reset; serial query with a diff; serial query for a serial the source no longer has / a foreign session, answered with Cache Reset and followed by a reset query) x one or two steps (the second after the source moved on and notified: the client reads the server's Serial Notify, asks with its state and gets the diff); the source holds origins of both families, a router key and an ASPA, announced and withdrawn; each message on the link in turn (query, response, cache reset, notify, second query, second response) is delivered under every fragmentation into <= 3 chunks (quick: responses into <= 2 chunks), the others whole; for the Serial Notify also with the client's refresh time passing before any chunk after the first; oracle: every step succeeds, the target holds exactly the source's data with action, timing and state, the source was asked exactly the client's state; non-trivial = runs with a message in >= 2 chunks");
    let mut plans: Vec<Plan> = Vec::new();
    let mut dry_fail: Vec<(Plan, String)> = Vec::new();
    let d0 = e2e_data()[0].0;
    for v in 0u8..=2 { for start in [None, Some((E_SESSION, d0.wrapping_sub(1))), Some((E_SESSION, 5)), Some((E_SESSION ^ 0x0100, d0))] { for steps in [1usize, 2] {
        // a dry run gives the messages and their lengths
        let base = Plan { v, start, steps, msg: usize::MAX, sizes: vec![], tick_before: None };
        let dry = match rpki_verif::guard(|| exec_e2e(&base)) { Ok(r) => r, Err(p) => { dry_fail.push((base.clone(), p)); continue } };
        plans.push(base.clone());
        for (mi, (c2s, bytes)) in dry.msgs.iter().enumerate() {
            // with two steps only the messages of the second exchange are cut (the first is the one-step case)
            let first_of_second = dry.msgs.iter().position(|(c, b)| !*c && b.len() == 12 && b[1] == 0).unwrap_or(usize::MAX);
            if steps == 2 && mi < first_of_second { continue }
            let is_notify = mi == first_of_second;
            let max_cuts = if thorough || *c2s || bytes.len() <= 12 { 2 } else { 1 };
            for sizes in chunkings(bytes.len(), max_cuts) {
                if sizes.len() == 1 { continue }
                plans.push(Plan { msg: mi, sizes: sizes.clone(), ..base.clone() });
                if is_notify { for c in 1..sizes.len() { plans.push(Plan { msg: mi, sizes: sizes.clone(), tick_before: Some(c), ..base.clone() }) } }
            }
        }
    } } }
    for (p, m) in dry_fail { sp.eval(); ctx.fail("C07.route.e2e.no_panic", format!("end-to-end {}", render_plan(&p)), m) }
    let accs: Vec<Acc> = plans.par_chunks(64).map(|chunk| {
        let mut acc = Acc::default();
        for p in chunk {
            if let Err(m) = rpki_verif::guard(|| judge_e2e(&mut acc, p)) { acc.fail("C07.route.e2e.no_panic", || format!("end-to-end {}", render_plan(p)), m); acc.class("violation") }
        }
        acc
    }).collect();
    report(ctx, &sp, accs);
    sp.set("plans", serde_json::json!(plans.len()));
    sp.sample_str(|| plans.get(plans.len() / 2).map(render_plan).unwrap_or_default());
    sp.done(true, &format!("{} plans: 3 versions x 4 client starts x 1-2 steps x every message cut into <= 3 chunks in turn{}", plans.len(), if thorough { "" } else { " (responses: <= 2 chunks)" }));
}

/// With C07_TIMING set: wall and process CPU seconds since the last lap, on stderr (not part of the evidence).
fn lap(what: &str) {
    use std::sync::Mutex as M;
    static LAST: M<Option<(std::time::Instant, f64)>> = M::new(None);
    if std::env::var_os("C07_TIMING").is_none() { return }
    let mut ts = libc::timespec { tv_sec: 0, tv_nsec: 0 };
    unsafe { libc::clock_gettime(libc::CLOCK_PROCESS_CPUTIME_ID, &mut ts) };
    let cpu = ts.tv_sec as f64 + ts.tv_nsec as f64 * 1e-9;
    let now = std::time::Instant::now();
    let mut g = LAST.lock().unwrap();
    if let Some((t, c)) = *g { eprintln!("timing {what}: wall {:.2}s cpu {:.2}s", (now - t).as_secs_f64(), cpu - c) }
    *g = Some((now, cpu));
}

//------------ main ----------------------------------------------------------

fn main() {
    let ctx = Ctx::new("C07", "fault_enumeration");
    let _ = REPLAY.set(ctx.replay.as_ref().map(|(_, w)| w.clone()));
    let thorough = ctx.tier.is_thorough();
    ctx.assume("RFC 6810 / RFC 8210 / 8210bis header and length rules as written down in this file's wire grammar are the reference for 'wrong type, length or version'");
    ctx.assume("a reader that does not interpret the version field (every reader except the end-of-data split and the client's version check) may return a PDU carrying any version; 'wrong version' is judged where the version selects a layout or contradicts the negotiated one");
    ctx.assume("a stream 'ends early' when the peer closes; a stream that merely stalls is allowed to be waited for");

    // The fixed seed PDUs and replies of the later spaces, constructed and
    // written with the library: done under a guard so that a library that
    // panics here is reported as a violation.
    type Setup = (Vec<ClientSeed>, Vec<Vec<u8>>, Vec<Vec<usize>>, Vec<Val>, Vec<Vec<u8>>, Vec<Val>, Vec<Vec<u8>>);
    let setup: Result<Setup, String> = rpki_verif::guard(|| {
        let cseeds = client_seeds();
        let cstreams: Vec<Vec<u8>> = cseeds.iter().map(|s| s.reply.iter().flat_map(|v| v.build().wire()).collect()).collect();
        let coffs: Vec<Vec<usize>> = cseeds.iter().map(|s| s.reply.iter().scan(0usize, |a, v| { let o = *a; *a += v.build().wire().len(); Some(o) }).collect()).collect();
        let sds = seeds();
        let swires: Vec<Vec<u8>> = sds.iter().map(|v| v.build().wire()).collect();
        let lsds = long_seeds();
        let lwires: Vec<Vec<u8>> = lsds.iter().map(|v| v.build().wire()).collect();
        (cseeds, cstreams, coffs, sds, swires, lsds, lwires)
    });
    let (cseeds, cstreams, coffs, sds, swires, lsds, lwires) = match setup {
        Ok(x) => x,
        Err(p) => {
            let sp = ctx.space("setup", "constructing and writing the seed PDUs and client replies with the library");
            sp.eval();
            ctx.fail("C07.rt.no_panic", "constructing and writing the seed PDUs (seeds(), long_seeds(), client_seeds())", p);
            sp.done(false, "stopped: the seeds cannot be constructed");
            ctx.finish();
        }
    };

    lap("setup");
    //--- (1) round trip of single PDUs ---------------------------------------
    let sp = ctx.space("roundtrip.pdu",
        "every value of the boundary domains (all PDU types, versions 0-2, both actions) written by the library, length field compared with the octets written, read back through every reader that consumes the type, under every fragmentation into <= 3 chunks (every cut position for PDUs <= 64 octets; first 48 / last 8 / 1024-boundary positions for longer ones; quick: <= 2 chunks for PDUs > 64 octets and one piece above 70 000 octets, thorough: <= 2 chunks above 70 000 octets); key-info lengths every 0..=300, provider counts every 0..=80, error-report field lengths every 0..=40, then k-1,k,k+1 for the powers of two up to 65536 octets / 16380 providers (thorough: key info up to 2^20); non-trivial = executions with at least one cut");
    let vals = values(true);
    let max_cuts_long = ctx.tier.pick(1, 2);
    let accs: Vec<Acc> = vals.par_iter().map(|val| {
        let mut acc = Acc::default();
        let built = rpki_verif::guard(|| { let b = val.build(); let w = b.wire(); (b, w) });
        let (_, wire) = match built {
            Ok(x) => x,
            Err(p) => { acc.fail("C07.rt.no_panic", || format!("pdu={}", val.render()), format!("constructing or writing panics: {p}")); return acc }
        };
        let announced = u32::from_be_bytes([wire[4], wire[5], wire[6], wire[7]]) as usize;
        if announced != wire.len() || wire[0] != val.version() || wire[1] != val.ty().code() {
            acc.fail("C07.rt.length_field", || format!("pdu={} bytes={}", val.render(), show(&wire)),
                format!("header says version {} type {} length {announced}; {} octets were written for version {} type {}", wire[0], wire[1], wire.len(), val.version(), val.ty().code()));
        }
        let frs = fragmentations(wire.len(), if wire.len() <= 64 { 2 } else if wire.len() <= 70_000 { max_cuts_long } else { max_cuts_long - 1 });
        for rd in readers_for(val.ty()) { for fr in &frs { judge_roundtrip(&mut acc, val, &wire, rd, fr) } }
        acc
    }).collect();
    report(&ctx, &sp, accs);
    sp.set("values", serde_json::json!(vals.len()));
    let by_type = { let mut m: BTreeMap<String, u64> = BTreeMap::new(); for v in &vals { *m.entry(format!("{:?}", v.ty())).or_insert(0) += 1 } m };
    sp.set("values_by_type", serde_json::json!(by_type));
    let sample = |v: &Val| format!("{} -> {}", v.render(), rpki_verif::guard(|| show(&v.build().wire())).unwrap_or_else(|p| p));
    sp.sample_str(|| sample(&vals[vals.len() / 2]));
    sp.sample_str(|| sample(vals.iter().find(|v| matches!(v, Val::Aspa { providers, .. } if providers.len() == 2)).unwrap()));
    sp.done(true, &format!("{} values x readers x fragmentations into <= 3 chunks ({} for long PDUs)", vals.len(), max_cuts_long + 1));

    lap("roundtrip.pdu");
    //--- (1b) every prefix length x addresses that some layer singles out ------
    // Round 13: the boundary domain above has the prefix lengths 0, 1, max-1, max and three bit
    // patterns. Addresses are singled out by *meaning* as well (std::net and text forms treat
    // IPv4-mapped, IPv4-compatible, NAT64, 6to4, loopback, link-local, multicast, documentation
    // and private blocks specially; lenient constructors may "normalise" between families).
    let sp = ctx.space("roundtrip.address_grid",
        "route origins with EVERY prefix length (0..=32, 0..=128) x addresses singled out by meaning (IPv6: ::, ::1, IPv4-compatible ::a.b.c.d, IPv4-mapped ::ffff:a.b.c.d incl. ::ffff:0:0 and ::ffff:255.255.255.255, ::fffe:..., NAT64 64:ff9b::/96, 6to4 2002::/16, 2001:db8::, fc00::, fe80::, ff02::1, all ones; IPv4: 0.0.0.0, 10/8, 100.64/10, 127.0.0.1, 169.254/16, 172.16/12, 192.0.2.0, 192.168/16, 198.18/15, 224/4, 240/4, 255.255.255.255) masked to the length x max length {the length, the family maximum, the middle} x versions {0, 2} x both actions: written by the library, length field, read back through every reader of the type as a whole and (every fourth value) under every single cut; non-trivial = every value (distinct by construction)");
    {
        let v6_bases: [u128; 16] = [0, 1, 0xC000_0201, 0x0A00_0001, 0xFFFF_0000_0000, 0xFFFF_C000_0201, 0xFFFF_FFFF_FFFF, 0xFFFE_C000_0201,
            (0x0064_ff9bu128 << 96) | 0xC000_0201, (0x2002_c000u128 << 96) | (0x0201u128 << 80), 0x2001_0db8u128 << 96, 0xfc00u128 << 112, 0xfe80u128 << 112,
            (0xff02u128 << 112) | 1, u128::MAX, (0x2001_0db8u128 << 96) | 0xFFFF_C000_0201];
        let v4_bases: [u32; 13] = [0, 0x0A00_0001, 0x6440_0001, 0x7F00_0001, 0xA9FE_0001, 0xAC10_0001, 0xC000_0200, 0xC0A8_0101, 0xC612_0001, 0xE000_0001, 0xF000_0001, 0xFFFF_FFFF, 0x0000_FFFF];
        let mut gvals: Vec<Val> = Vec::new();
        for v in [0u8, 2] { for fl in [1u8, 0] {
            for plen in 0..=32u8 {
                let mask: u32 = if plen == 0 { 0 } else { u32::MAX << (32 - plen) };
                for mlen in dedup(vec![plen, 32, (plen + 32) / 2]) { for addr in dedup(v4_bases.iter().map(|b| b & mask).collect()) {
                    gvals.push(Val::V4 { v, flags: fl, plen, mlen, addr, asn: 64496 });
                } }
            }
            for plen in 0..=128u8 {
                let mask: u128 = if plen == 0 { 0 } else { u128::MAX << (128 - plen) };
                for mlen in dedup(vec![plen, 128, ((plen as u16 + 128) / 2) as u8]) { for addr in dedup(v6_bases.iter().map(|b| b & mask).collect()) {
                    gvals.push(Val::V6 { v, flags: fl, plen, mlen, addr, asn: 64496 });
                } }
            }
        } }
        let accs: Vec<Acc> = gvals.par_iter().enumerate().map(|(i, val)| {
            let mut acc = Acc::default();
            let built = rpki_verif::guard(|| { let b = val.build(); let w = b.wire(); (b, w) });
            let (_, wire) = match built {
                Ok(x) => x,
                Err(p) => { acc.fail("C07.rt.no_panic", || format!("pdu={}", val.render()), format!("constructing or writing panics: {p}")); return acc }
            };
            let announced = u32::from_be_bytes([wire[4], wire[5], wire[6], wire[7]]) as usize;
            if announced != wire.len() || wire[0] != val.version() || wire[1] != val.ty().code() {
                acc.fail("C07.rt.length_field", || format!("pdu={} bytes={}", val.render(), show(&wire)),
                    format!("header says version {} type {} length {announced}; {} octets were written for version {} type {}", wire[0], wire[1], wire.len(), val.version(), val.ty().code()));
            }
            let frs = fragmentations(wire.len(), if i % 4 == 0 { 1 } else { 0 });
            for rd in readers_for(val.ty()) { for fr in &frs { judge_roundtrip(&mut acc, val, &wire, rd, fr) } }
            acc
        }).collect();
        report(&ctx, &sp, accs);
        sp.set("values", serde_json::json!(gvals.len()));
        sp.sample_str(|| gvals.iter().find(|v| matches!(v, Val::V6 { plen: 128, addr, .. } if *addr == 0xFFFF_C000_0201)).map(|v| format!("{} -> {}", v.render(), rpki_verif::guard(|| show(&v.build().wire())).unwrap_or_else(|p| p))).unwrap_or_default());
        sp.done(true, &format!("{} values x every reader of the type x (whole; every fourth value: every single cut)", gvals.len()));
    }
    lap("roundtrip.address_grid");
    //--- (1b) the writer as a dimension ------------------------------------------
    let sp = ctx.space("roundtrip.writer",
        "every value written by the library (type's own write; payload PDUs and end of data also through the Payload / EndOfData enums) into the scripted socket, with and without native vectored writes, under: no limit; every write call limited to c octets; only the first write call limited to c octets (c in 1,2,7,11,12,31,32,33); back-pressure after k octets then release (k in 0,1,7,11,12,31,32,33,len-1); the octets that reach the socket must equal the Vec rendering, their number must equal the length field, and they must read back as the value; non-trivial = writes that went out in >= 2 pieces (measured)");
    let accs: Vec<Acc> = vals.par_iter().map(|val| {
        let mut acc = Acc::default();
        let Ok((built, wire)) = rpki_verif::guard(|| { let b = val.build(); let w = b.wire(); (b, w) }) else { return acc };
        let scripts = writer_scripts(wire.len());
        for via in [false, true] {
            if via && !built.has_enum_path() { continue }
            for sc in &scripts { judge_writer(&mut acc, val, &built, &wire, via, sc) }
        }
        acc
    }).collect();
    report(&ctx, &sp, accs);
    sp.sample_str(|| { let v = vals.iter().find(|v| matches!(v, Val::Key { info, .. } if info.len() == 1)).unwrap();
        format!("{} sched={}", v.render(), render_script(&writer_scripts(33)[20])) });
    sp.done(true, &format!("{} values x {} writer scripts x write paths", vals.len(), writer_scripts(64).len()));

    lap("roundtrip.writer");
    //--- (2) round trip of whole replies through the client ------------------
    let sp = ctx.space("roundtrip.client",
        "reset, serial, serial-then-reset and version-downgrade replies (versions 0-2, every payload type the version carries, both actions; plus reset replies with n payload PDUs for every n in 0..=40 and around 64, 128, 256, these into <= 2 chunks) written by the library and read by the real Client::step under every fragmentation into <= 3 chunks (quick: <= 2 chunks); the target must receive exactly the items, actions, timing and state written; for <= 2 chunks also Client::new and Client::run against Client::step, and the Error PDUs of Client::send_error (direct and through a failing PayloadTarget::apply) for the four PayloadError values: identical octets, one well-formed Error PDU of the session's version; non-trivial = executions with at least one cut");
    let mut cjobs: Vec<(usize, Vec<Ev>)> = Vec::new();
    for (i, st) in cstreams.iter().enumerate() {
        // every cut position here, the replies are short
        let n = st.len();
        cjobs.push((i, vec![Ev::Deliver(n), Ev::Settle]));
        for a in 1..n {
            cjobs.push((i, vec![Ev::Deliver(a), Ev::Settle, Ev::Deliver(n - a), Ev::Settle]));
            if thorough && !cseeds[i].sweep { for b in a + 1..n { cjobs.push((i, vec![Ev::Deliver(a), Ev::Settle, Ev::Deliver(b - a), Ev::Settle, Ev::Deliver(n - b), Ev::Settle])) } }
        }
    }
    let accs: Vec<Acc> = cjobs.par_chunks(256).map(|chunk| {
        let mut acc = Acc::default();
        for (i, script) in chunk {
            if script.len() > 2 { acc.nontrivial += 1 }
            judge_client(&mut acc, &cseeds[*i], &cstreams[*i], script, true, false, "");
            if script.len() <= if cseeds[*i].sweep { 2 } else { 4 } {
                // the other entry points, on the same schedule followed by the server closing
                let mut closing = script.clone(); closing.extend([Ev::Close, Ev::Settle]);
                judge_client_variants(&mut acc, &cseeds[*i], &cstreams[*i], &closing, "");
            }
        }
        acc
    }).collect();
    report(&ctx, &sp, accs);
    sp.sample_str(|| format!("{}: {}", cseeds[2].name, show(&cstreams[2])));
    sp.set("replies", serde_json::json!(cseeds.iter().map(|s| s.name.clone()).collect::<Vec<_>>()));
    sp.done(true, &format!("{} replies x every fragmentation into <= {} chunks", cseeds.len(), ctx.tier.pick(2, 3)));

    lap("roundtrip.client");
    //--- (2b) prefix and max length through to_payload -------------------------
    let sp = ctx.space("to_payload.lengths",
        "IPv4 and IPv6 prefix PDUs with every (prefix length, max length) pair in 0..=255 x 0..=255, address all-ones, both actions: to_payload must not panic, and where it accepts, the item must carry exactly these lengths and the address with the host bits cleared; non-trivial = pairs outside 0 <= len <= max <= 32/128 (rejected) plus pairs with host bits to clear");
    let accs: Vec<Acc> = (0u16..512).into_par_iter().map(|i| {
        let mut acc = Acc::default();
        let (v6, plen) = (i >= 256, (i % 256) as u8);
        {
            // the address-family octet: every value, against the two constructors
            use rpki::rtr::payload::Afi;
            acc.evals += 1;
            let bad = rpki_verif::guard(|| { let a = Afi::from_u8(plen); a.into_u8() != plen || a.is_ipv4() == a.is_ipv6()
                || (a == Afi::ipv4()) != (plen == Afi::ipv4().into_u8()) || (a == Afi::ipv6()) != (plen == Afi::ipv6().into_u8())
                || !Afi::ipv4().is_ipv4() || !Afi::ipv6().is_ipv6() || a.to_string() != (if a.is_ipv4() { "ipv4" } else { "ipv6" }) });
            if bad != Ok(false) {
                acc.fail("C07.to_payload.same_item", || format!("Afi::from_u8({plen})"), format!("Afi accessors disagree with each other or panic: {bad:?}"));
            }
        }
        for mlen in 0u16..256 { let mlen = mlen as u8; for flags in [0u8, 1] {
            acc.evals += 1;
            let wit = || format!("{} prefix_len={plen} max_len={mlen} flags={flags}", if v6 { "Ipv6Prefix" } else { "Ipv4Prefix" });
            let r = rpki_verif::guard(|| {
                let p = if v6 { pdu::Payload::V6(pdu::Ipv6Prefix::new(2, flags, plen, mlen, Ipv6Addr::from(u128::MAX), Asn::from_u32(7))) }
                    else { pdu::Payload::V4(pdu::Ipv4Prefix::new(2, flags, plen, mlen, Ipv4Addr::from(u32::MAX), Asn::from_u32(7))) };
                p.to_payload().ok()
            });
            let max = if v6 { 128u8 } else { 32 };
            let valid = plen <= mlen && mlen <= max;
            if !valid || plen < max { acc.nontrivial += 1 }
            match r {
                Err(p) => { acc.fail("C07.to_payload.no_panic", wit, p); acc.class("violation") }
                Ok(None) => acc.class(if valid { "rejected:valid-lengths" } else { "rejected" }),
                Ok(Some((action, Payload::Origin(o)))) => {
                    let want_addr: std::net::IpAddr = if v6 { Ipv6Addr::from(if plen == 0 { 0 } else { u128::MAX << (128 - plen.min(128)) }).into() }
                        else { Ipv4Addr::from(if plen == 0 { 0 } else { u32::MAX << (32 - plen.min(32)) }).into() };
                    if o.prefix.prefix_len() != plen || o.prefix.resolved_max_len() != mlen || o.prefix.addr() != want_addr
                        || o.asn.into_u32() != 7 || action.is_announce() != (flags == 1) {
                        acc.fail("C07.to_payload.same_item", wit, format!("item {o:?} / {action:?}")); acc.class("violation")
                    } else { acc.class(if valid { "accepted" } else { "accepted:invalid-lengths" }) }
                }
                Ok(Some(other)) => { acc.fail("C07.to_payload.same_item", wit, format!("{other:?}")); acc.class("violation") }
            }
        } }
        acc
    }).collect();
    report(&ctx, &sp, accs);
    sp.sample_str(|| "Ipv4Prefix prefix_len=24 max_len=33 flags=1 -> rejected".to_string());
    sp.done(true, "all 2 x 65536 length pairs x 2 actions");

    lap("to_payload.lengths");
    //--- (2c) provider counts beyond what the library writes --------------------
    let sp = ctx.space("aspa.provider_count",
        "ASPA PDUs built octet by octet with n providers for n in 0,1,2,255,256, 16379..16381 (MAX_COUNT), k-1,k,k+1 for k = 2^15, 2^16, 2^17, 2^18, and 2^18+3, 2^18+16380, 2^18+16381 x versions 0-2 x both actions, read through Aspa::read, Header::read+Aspa::read_payload and Payload::read: whatever a reader accepts must answer every accessor (asn_count against iter().count(), into_providers against providers(), to_payload) without panicking; non-trivial = counts above ProviderAsns::MAX_COUNT, which the library itself never writes");
    let counts = [0usize, 1, 2, 255, 256, 16379, 16380, 16381, 32767, 32768, 32769, 65534, 65535, 65536, 65537, 131071, 131072, 131073, 262143, 262144, 262145, 262147, 262144 + 16380, 262144 + 16381];
    let pjobs: Vec<(usize, u8, u8)> = counts.iter().flat_map(|n| [0u8, 1, 2].into_iter().flat_map(move |v| [0u8, 1].into_iter().map(move |f| (*n, v, f)))).collect();
    let accs: Vec<Acc> = pjobs.par_iter().map(|(n, v, flags)| {
        let mut acc = Acc::default();
        let mut wire = vec![*v, 11, *flags, 0]; wire.extend_from_slice(&((12 + 4 * n) as u32).to_be_bytes()); wire.extend_from_slice(&0xFFFF_FFF0u32.to_be_bytes());
        for i in 0..*n { wire.extend_from_slice(&(i as u32 ^ 0x8000_00FF).to_be_bytes()) }
        for rd in [Rd::Read(Ty::Aspa), Rd::Dispatch(Ty::Aspa), Rd::PayloadRead] {
            let script = closes(wire.len())[1].clone();
            let wit = || format!("aspa providers={n} v={v} flags={flags} reader={} sched={}", rd.render(), render_script(&script));
            if skip_for_replay(&script, &wit) { continue }
            let run = exec(&[rd], &wire, &script);
            acc.evals += 1;
            if *n > pdu::ProviderAsns::MAX_COUNT { acc.nontrivial += 1 }
            if !run_level(&mut acc, "fault", &wit, run.pending_at_quiescence, &run.end, run.livelock, run.spin, true) { acc.class("violation"); continue }
            match run.steps.first().map(|s| &s.res) {
                Some(Ok(got)) => {
                    let aspa = match got { Got::Pdu(Built::Aspa(a)) => a.clone(), Got::Payload(pdu::Payload::Aspa(a)) => a.clone(), other => {
                        acc.fail("C07.accessor.asn_count", &wit, format!("unexpected result {}", trunc(&format!("{other:?}"), 120))); acc.class("violation"); continue } };
                    let r = rpki_verif::guard(|| accessor_sweep(&Built::Aspa(aspa.clone()))).unwrap_or_else(|m| Err(format!("an accessor panics: {m}"))).and_then(|()| {
                        rpki_verif::guard(|| pdu::Payload::Aspa(aspa.clone()).to_payload().map(|(a, it)| (a, it.as_aspa().map(|x| x.providers.len())))).map_err(|m| format!("to_payload panics: {m}"))
                            .and_then(|r| match r { Ok((_, Some(len))) if len == 4 * n || (flags & 1 == 0 && len == 0) => Ok(()), other => Err(format!("to_payload gives {other:?}")) })
                    });
                    match r { Ok(()) => acc.class("accepted:accessors-agree"), Err(d) => { acc.fail("C07.accessor.asn_count", &wit, d); acc.class("violation") } }
                }
                Some(Err(_)) => acc.class(if *n > pdu::ProviderAsns::MAX_COUNT { "rejected:more-than-MAX_COUNT" } else { "rejected" }),
                None => acc.class("violation"),
            }
        }
        acc
    }).collect();
    report(&ctx, &sp, accs);
    sp.sample_str(|| "aspa providers=65536: length field 262156".to_string());
    sp.done(true, &format!("{} provider counts x 3 versions x 2 actions x 3 readers", counts.len()));

    lap("aspa.provider_count");
    //--- (3) truncation -------------------------------------------------------
    let sp = ctx.space("fault.truncation",
        "every sequence of <= 2 seed PDUs (one of every type in every version; quick: pairs of equal version only) x every reader that consumes the types x stream closed after k octets for every k (close in the same batch as the octets / after quiescence), plus two long seeds, plus every reader on every seed (type mismatch); expected from the wire grammar: error within the bound, or the complete PDUs read back equal; non-trivial = cases with k strictly inside a PDU");
    #[derive(Clone, Copy)] enum TJob { One(usize), Pair(usize, usize), Long(usize), Cross(usize) }
    let mut tjobs: Vec<TJob> = Vec::new();
    for i in 0..sds.len() { tjobs.push(TJob::One(i)); tjobs.push(TJob::Cross(i)) }
    for i in 0..lsds.len() { tjobs.push(TJob::Long(i)) }
    for i in 0..sds.len() { for j in 0..sds.len() { if thorough || sds[i].version() == sds[j].version() { tjobs.push(TJob::Pair(i, j)) } } }
    let accs: Vec<Acc> = tjobs.par_iter().map(|job| {
        let mut acc = Acc::default();
        let run = |acc: &mut Acc, vals: &[&Val], wires: &[&Vec<u8>], rds: &[Rd], ks: &mut dyn Iterator<Item = usize>| {
            let stream: Vec<u8> = wires.iter().flat_map(|w| w.iter().copied()).collect();
            let bounds: Vec<usize> = wires.iter().scan(0, |a, w| { *a += w.len(); Some(*a) }).collect();
            for k in ks {
                if k != 0 && !bounds.contains(&k) { acc.nontrivial += 2 }
                for script in closes(k) {
                    let wit = || format!("pdus={} bytes={} readers={} cut={k} sched={}", vals.iter().map(|v| v.render()).collect::<Vec<_>>().join("+"),
                        show(&stream), rds.iter().map(|r| r.render()).collect::<Vec<_>>().join(","), render_script(&script));
                    judge_fault(acc, rds, Some(vals), &stream[..k], &script, &wit);
                }
            }
        };
        match *job {
            TJob::One(i) => for rd in readers_for(sds[i].ty()) {
                run(&mut acc, &[&sds[i]], &[&swires[i]], &[rd], &mut (0..=swires[i].len()));
            },
            TJob::Long(i) => for rd in readers_for(lsds[i].ty()) {
                run(&mut acc, &[&lsds[i]], &[&lwires[i]], &[rd], &mut (0..=lwires[i].len()));
            },
            TJob::Pair(i, j) => for ra in readers_for(sds[i].ty()) { for rb in readers_for(sds[j].ty()) {
                let n = swires[i].len() + swires[j].len();
                run(&mut acc, &[&sds[i], &sds[j]], &[&swires[i], &swires[j]], &[ra, rb], &mut (0..=n));
            } },
            TJob::Cross(i) => for rd in all_readers() {
                if readers_for(sds[i].ty()).contains(&rd) { continue }
                let n = swires[i].len();
                // a reader for another type: the complete PDU and the PDU cut in the middle
                let script = &closes(n)[0];
                let wit = || format!("pdus={} bytes={} readers={} cut={n} sched={}", sds[i].render(), show(&swires[i]), rd.render(), render_script(script));
                // fields are compared only when the grammar says this reader consumes the PDU
                let same_layout = matches!(grammar(rd, &swires[i]), Exp::Ok(_));
                let _ = same_layout;
                judge_fault(&mut acc, &[rd], None, &swires[i], script, &wit);
                acc.nontrivial += 1;
            },
        }
        acc
    }).collect();
    report(&ctx, &sp, accs);
    sp.set("seeds", serde_json::json!(sds.iter().chain(lsds.iter()).map(|v| v.render()).collect::<Vec<_>>()));
    sp.sample_str(|| format!("{} cut=9: {}", sds[10].render(), show(&swires[10][..9])));
    sp.done(true, &format!("{} seeds, sequences of <= 2, every truncation point, 2 close timings", sds.len() + lsds.len()));

    lap("fault.truncation");
    //--- (3b) scale x truncation ---------------------------------------------------
    let sp = ctx.space("fault.truncation.scale",
        "long seeds: router keys whose key info has k-1, k, k+1 octets for every power of two k = 2^6..2^17 (thorough: also 2^18, 2^20), ASPA PDUs with k-1, k, k+1 providers for k = 2^4..2^13 and 16379, 16380 (the maximum), error reports whose text / whose embedded PDU has k-1, k, k+1 octets for k = 2^6..2^17 (thorough: 2^18, 2^20); each x stream closed after c octets for every c in 0..=40, in b-8..=b+48 for every power of two b >= 64 and every multiple b of 4096 (thorough: of 1024 for PDUs up to 2^17 octets, of 65536 above) up to the PDU length, and in the last 40 octets up to the complete PDU x 3 schedules (closed with the octets / after quiescence / after reads limited to 1000 octets each) x every reader that consumes the type, and read by the real client inside a reset and a serial reply (the error report as the version error in front of it); expected from the wire grammar: an error within the bound, the complete PDU read back equal; non-trivial = executions with the cut strictly inside the PDU");
    {
        let setup = rpki_verif::guard(|| {
            let seeds = scale_seeds(thorough);
            let wires: Vec<Vec<u8>> = seeds.iter().map(|v| v.build().wire()).collect();
            let cl: Vec<[(ClientSeed, Vec<u8>, usize); 2]> = seeds.iter().map(|v| [false, true].map(|serial| {
                let s = scale_client_seed(v, serial);
                let at = s.reply.iter().position(|x| x == v).unwrap();
                let off: usize = s.reply[..at].iter().map(|x| x.build().wire().len()).sum();
                let stream: Vec<u8> = s.reply.iter().flat_map(|x| x.build().wire()).collect();
                (s, stream, off)
            })).collect();
            (seeds, wires, cl)
        });
        match setup {
            Err(p) => { sp.eval(); ctx.fail("C07.rt.no_panic", "constructing and writing the long seeds (scale_seeds())", p); sp.done(false, "stopped: the seeds cannot be constructed"); }
            Ok((seeds, wires, cl)) => {
                // jobs: (seed, Some(reader)) / (seed, None: the client, both paths)
                // thorough: the finer stride up to 2^17, the seeds above that at every multiple of 2^16
                let stride_for = |len: usize| if !thorough { 4096usize } else if len <= 140_000 { 1024 } else { 65536 };
                let mut jobs: Vec<(usize, Option<Rd>)> = Vec::new();
                for (i, v) in seeds.iter().enumerate() { for rd in readers_for(v.ty()) { jobs.push((i, Some(rd))) } jobs.push((i, None)) }
                let accs: Vec<Acc> = jobs.par_iter().map(|(i, rd)| {
                    let mut acc = Acc::default();
                    let (val, wire) = (&seeds[*i], &wires[*i]);
                    for k in scale_cuts(wire.len(), stride_for(wire.len())) {
                        match rd {
                            // closed with the octets / after quiescence / after reads of at most 1000 octets each
                            Some(rd) => for script in closes(k).into_iter().chain([vec![Ev::ReadChunk(1000), Ev::Deliver(k), Ev::Settle, Ev::Close, Ev::Settle]]) {
                                if k != 0 && k != wire.len() { acc.nontrivial += 1 }
                                let wit = || format!("pdus={} bytes={} readers={} cut={k} of {} sched={}", val.render(), show(wire), rd.render(), wire.len(), render_script(&script));
                                judge_fault(&mut acc, &[*rd], Some(&[val]), &wire[..k], &script, &wit);
                            },
                            None => for (seed, stream, off) in &cl[*i] {
                                // the complete reply once, and the reply cut at the same places inside the long PDU
                                for ck in if k == wire.len() { vec![off + k, stream.len()] } else { vec![off + k] } {
                                    for script in closes(ck) {
                                        if ck != stream.len() { acc.nontrivial += 1 }
                                        judge_client(&mut acc, seed, stream, &script, true, true, &format!("cut={ck} of {} ", stream.len()));
                                    }
                                }
                            },
                        }
                    }
                    acc
                }).collect();
                report(&ctx, &sp, accs);
                sp.set("seeds", serde_json::json!(seeds.iter().map(|v| v.render()).collect::<Vec<_>>()));
                sp.set("cuts_of_the_longest_seed", serde_json::json!(wires.iter().map(|w| w.len()).max().map(|m| scale_cuts(m, stride_for(m)).len()).unwrap_or(0)));
                sp.sample_str(|| { let i = seeds.iter().position(|v| matches!(v, Val::Key { info, .. } if info.len() == 65537)).unwrap(); format!("{} cut=65568 of {}", seeds[i].render(), wires[i].len()) });
                sp.done(true, &format!("{} long seeds (variable parts up to 2^{} octets) x every cut in the windows x every reader and the client", seeds.len(), ctx.tier.pick(17, 20)));
            }
        }
    }

    lap("fault.truncation.scale");
    //--- (4) header corruption -------------------------------------------------
    let sp = ctx.space("fault.header",
        "every seed x every single header-field corruption (version := 0,1,2,3,0x7f,0xff; type := 0..12,0xff; octets 2,3 := 0,1,0xff; length := 0,7,8,len-1,len+1,len+4,12,20,24,32,0xffff,0x10000,2^31,2^32-1; each length octet := 0,1,0x80,0xff) x followed by nothing / 8 / 24 further octets x every reader x 2 close timings; expected from the wire grammar; non-trivial = every case (each differs from the written PDU in exactly one field)");
    let all_rd = all_readers();
    let hseeds: Vec<(&Val, &Vec<u8>)> = sds.iter().zip(swires.iter()).chain(lsds.iter().zip(lwires.iter())).collect();
    // allocation probe (sequential, before the parallel phase): a router key announcing 4 GiB on a 37-octet stream
    let alloc_probe = {
        let mut s = swires[6].clone(); s[4..8].copy_from_slice(&0xFFFF_FFFFu32.to_be_bytes());
        let before = vm_peak_kb();
        let r = exec(&[Rd::Read(Ty::RouterKey)], &s, &closes(s.len())[0]);
        let after = vm_peak_kb();
        format!("RouterKey::read on a header announcing 2^32-1 octets over a 37-octet stream: {}; peak virtual size grew by more than 3 GiB: {} (the key-info buffer is allocated from the announced length before anything is read; reported, not judged)",
            match r.steps.first().map(|s| &s.res) { Some(Err(e)) => format!("Err({e})"), other => format!("{other:?}") }, if after.saturating_sub(before) / 1024 > 3072 { "yes" } else { "no" })
    };
    let accs: Vec<Acc> = hseeds.par_iter().map(|(val, wire)| {
        let mut acc = Acc::default();
        let follow: [Vec<u8>; 3] = [vec![], vec![val.version(), 2, 0, 0, 0, 0, 0, 8], vec![0xFF; 24]];
        for (what, bytes) in corruptions(wire) {
            for (fi, f) in follow.iter().enumerate() {
                let stream: Vec<u8> = [&bytes[..], &f[..]].concat();
                for rd in &all_rd {
                    for script in closes(stream.len()) {
                        let wit = || format!("pdu={} {what} follow={} bytes={} reader={} sched={}", val.render(), [0, 8, 24][fi], show(&stream), rd.render(), render_script(&script));
                        judge_fault(&mut acc, &[*rd], None, &stream, &script, &wit);
                        acc.nontrivial += 1;
                    }
                }
            }
        }
        acc
    }).collect();
    report(&ctx, &sp, accs);
    sp.set("announced_4GiB_probe", serde_json::json!(alloc_probe));
    sp.sample_str(|| { let c = &corruptions(&swires[4])[20]; format!("{} {} -> {}", sds[4].render(), c.0, show(&c.1)) });
    sp.done(true, &format!("{} seeds x all single header-field corruptions x {} readers", hseeds.len(), all_rd.len()));

    lap("fault.header");
    //--- (5) the client on broken replies --------------------------------------
    let sp = ctx.space("fault.client",
        "every client reply stream (reset / serial / serial-then-reset / downgrade / error report) x closed after k octets for every k (2 close timings), and x every single header-field corruption of every PDU of the reply, read by the real Client::step; the reply grammar decides where an error is due; non-trivial = cases the grammar calls broken");
    #[derive(Clone)] enum CJob { Cut(usize, usize), Corrupt(usize, usize) }
    let mut fjobs: Vec<CJob> = Vec::new();
    for (i, st) in cstreams.iter().enumerate() {
        if cseeds[i].sweep { continue }
        for k in 0..st.len() { fjobs.push(CJob::Cut(i, k)) }
        for pi in 0..cseeds[i].reply.len() { fjobs.push(CJob::Corrupt(i, pi)) }
    }
    let accs: Vec<Acc> = fjobs.par_iter().map(|job| {
        let mut acc = Acc::default();
        match job {
            CJob::Cut(i, k) => for script in closes(*k) {
                acc.nontrivial += 1;
                judge_client(&mut acc, &cseeds[*i], &cstreams[*i], &script, true, true, &format!("cut={k} "));
                judge_client_variants(&mut acc, &cseeds[*i], &cstreams[*i], &script, &format!("cut={k} "));
            },
            CJob::Corrupt(i, pi) => {
                let off: usize = coffs[*i][*pi];
                for (what, head) in corruptions(&cstreams[*i][off..]) {
                    let stream: Vec<u8> = [&cstreams[*i][..off], &head[..]].concat();
                    if matches!(client_grammar(cseeds[*i].state.is_some(), &stream), CExp::Malformed(_)) { acc.nontrivial += 1 }
                    for script in closes(stream.len()) {
                        judge_client(&mut acc, &cseeds[*i], &stream, &script, false, true, &format!("pdu#{pi} {what} "));
                    }
                }
            }
        }
        acc
    }).collect();
    report(&ctx, &sp, accs);
    sp.sample_str(|| format!("{} cut=20: {}", cseeds[9].name, show(&cstreams[9][..20])));
    sp.done(true, "every truncation point and every single header-field corruption of every PDU of every reply");

    lap("fault.client");
    //--- (5b) the header fields that recur within one reply, each on its own ------------
    let sp = ctx.space("client.fields",
        "replies read by the real Client::step in which every header field that occurs in several PDUs of one reply is chosen independently: version of the Cache Response (and Cache Reset) x version of the payload PDUs x version of the End of Data (each 0-2) x initial version 0-2 x session of the Cache Response (the state's / another) x session of the End of Data (the state's / the Cache Response's other one / a third) x serial of the End of Data (the state's / +1 / unrelated), on the reset path, the serial path (client created with a state) and the serial path answered by Cache Reset; delivered whole (open and closed) and, where the three versions agree, under every fragmentation into 2 chunks; and TWO steps of ONE client (reset reply, Serial Notify, serial reply; versions 0-2, sessions and serials of the five PDUs that carry one chosen independently), whole and every 2-chunk fragmentation. Oracle: a step that succeeds leaves Client::state() equal to the state of the End of Data PDU it read, the target has the items, action and timing as written, every octet is consumed, the second query is a serial query for the first End of Data's state (judged where the first reply and the notify carry that session); disagreeing versions are an error; a reply as a real server writes it (all occurrences equal) must be accepted; non-trivial = cases in which some occurrence differs from another");
    {
        let mut cases: Vec<FCase> = Vec::new();
        for path in 0u8..3 { for init_v in 0u8..3 { for vc in 0u8..3 { for vp in 0u8..3 { for ve in 0u8..3 {
            for sc in [FA, FB] { for se in [FA, FB, FC] { for ne in [FN, FN + 1, 7] {
                cases.push(FCase { path, init_v, vc, vp, ve, sc, se, ne })
            } } }
        } } } } }
        let mut cases2: Vec<F2Case> = Vec::new();
        for v in 0u8..3 { for sc1 in [FA, FB] { for (sn, nn) in [(FA, FN + 1), (FA, 0x77), (FB, FN + 1), (FB, FN)] {
            for sc2 in [FA, FB] { for se2 in [FA, FB, FC] { for ne2 in [FN, FN + 1, 5] { cases2.push(F2Case { v, sc1, sn, nn, sc2, se2, ne2 }) } } }
        } } }
        enum FJob { One(FCase), Two(F2Case) }
        let fjobs: Vec<FJob> = cases.iter().map(|c| FJob::One(*c)).chain(cases2.iter().map(|c| FJob::Two(*c))).collect();
        let accs: Vec<Acc> = fjobs.par_chunks(8).map(|chunk| {
            let mut acc = Acc::default();
            for job in chunk {
                let reply = match job { FJob::One(c) => c.reply(), FJob::Two(c) => c.reply() };
                let stream = match rpki_verif::guard(|| reply.iter().flat_map(|v| v.build().wire()).collect::<Vec<u8>>()) {
                    Ok(s) => s,
                    Err(p) => { acc.fail("C07.rt.no_panic", || format!("reply={}", render_reply(&reply)), format!("constructing or writing panics: {p}")); continue }
                };
                let n = stream.len();
                let mut scripts: Vec<(Vec<Ev>, bool)> = vec![(vec![Ev::Deliver(n), Ev::Settle], false), (closes(n)[0].clone(), true)];
                let cuts = match job { FJob::One(c) => c.vc == c.vp && c.vp == c.ve, FJob::Two(_) => true };
                if cuts { for a in 1..n { scripts.push((vec![Ev::Deliver(a), Ev::Settle, Ev::Deliver(n - a), Ev::Settle], false)) } }
                for (script, closed) in &scripts {
                    match job {
                        FJob::One(c) => { if !c.uniform() { acc.nontrivial += 1 } judge_client_fields(&mut acc, c, &reply, &stream, script, *closed) }
                        FJob::Two(c) => { if !c.uniform() { acc.nontrivial += 1 } judge_client_fields2(&mut acc, c, &reply, &stream, script, *closed) }
                    }
                }
            }
            acc
        }).collect();
        report(&ctx, &sp, accs);
        sp.set("single_step_replies", serde_json::json!(cases.len()));
        sp.set("two_step_streams", serde_json::json!(cases2.len()));
        sp.sample_str(|| { let c = FCase { path: 1, init_v: 1, vc: 1, vp: 1, ve: 1, sc: FA, se: FB, ne: FN + 1 }; format!("serial path, state ({FA:#06x}, {FN}): {}", render_reply(&c.reply())) });
        sp.sample_str(|| { let c = &cases2[cases2.len() / 2]; format!("two steps: {}", render_reply(&c.reply())) });
        sp.done(true, &format!("{} single-step replies (3 paths x 3 initial versions x 27 version triples x 6 session pairs x 3 serials) and {} two-step streams, every 2-chunk fragmentation where the versions agree", cases.len(), cases2.len()));
    }

    lap("client.fields");
    //--- (6) several PDUs queued in one stream, every reader, every order ----------
    let sp = ctx.space("handed_out.queued",
        "every sequence of 3 seed PDUs of equal version (one of every type) queued in ONE stream that is handed to a sequence of three reader calls, every combination of the readers that consume the types, delivered in one piece and with 1-octet reads, then closed, and once with the last octet of the stream missing: every complete PDU must be recovered equal to what was written (a reader call may not take or lose octets of the PDUs queued behind its own); non-trivial = every case");
    let mut qjobs: Vec<(usize, usize)> = Vec::new();
    for i in 0..sds.len() { for j in 0..sds.len() { if sds[i].version() == sds[j].version() { qjobs.push((i, j)) } } }
    let accs: Vec<Acc> = qjobs.par_iter().map(|(i, j)| {
        let mut acc = Acc::default();
        for k in 0..sds.len() {
            if sds[k].version() != sds[*i].version() { continue }
            // the third position only for a rotating subset in quick (every type still occurs in every position)
            if !thorough && (i + j + k) % 3 != 0 { continue }
            let vals = [&sds[*i], &sds[*j], &sds[k]];
            let stream: Vec<u8> = [&swires[*i][..], &swires[*j][..], &swires[k][..]].concat();
            for ra in readers_for(vals[0].ty()) { for rb in readers_for(vals[1].ty()) { for rc in readers_for(vals[2].ty()) {
                for script in [vec![Ev::Deliver(stream.len()), Ev::Close, Ev::Settle], vec![Ev::ReadChunk(1), Ev::Deliver(stream.len()), Ev::Settle, Ev::Close, Ev::Settle]] {
                    let rds = [ra, rb, rc];
                    let wit = || format!("pdus={} bytes={} readers={} sched={}", vals.iter().map(|v| v.render()).collect::<Vec<_>>().join("+"), show(&stream),
                        rds.iter().map(|r| r.render()).collect::<Vec<_>>().join(","), render_script(&script));
                    acc.nontrivial += 1;
                    judge_fault(&mut acc, &rds, Some(&vals), &stream, &script, &wit);
                }
                // ... and with the last PDU one octet short: the first two are still recovered, the third is an error
                let short = &stream[..stream.len() - 1];
                let script = vec![Ev::Deliver(short.len()), Ev::Close, Ev::Settle];
                let rds = [ra, rb, rc];
                let wit = || format!("pdus={} bytes={} readers={} last octet missing sched={}", vals.iter().map(|v| v.render()).collect::<Vec<_>>().join("+"), show(short),
                    rds.iter().map(|r| r.render()).collect::<Vec<_>>().join(","), render_script(&script));
                acc.nontrivial += 1;
                judge_fault(&mut acc, &rds, Some(&vals), short, &script, &wit);
            } } }
        }
        acc
    }).collect();
    report(&ctx, &sp, accs);
    sp.sample_str(|| format!("{}+{}+{}", sds[0].render(), sds[6].render(), sds[10].render()));
    sp.done(true, &format!("triples of {} seeds of equal version{} x reader combinations x 2 read granularities", sds.len(), if thorough { "" } else { " (third position: every third seed, rotating)" }));

    lap("handed_out.queued");
    //--- (7) who else owns the octets -------------------------------------------------
    let sp = ctx.space("ownership",
        "router key info built from the same octets as sole owner / with a live clone / with a clone dropped just before / as a view into a larger buffer (offsets 0, 3) / from static memory, for lengths 0, 1, 5, 91, 300: the PDU written, read back and converted must be identical in all cases, and the other holders of the buffer unchanged; non-trivial = cases other than the sole owner");
    {
        let mut acc = Acc::default();
        static STATIC_INFO: [u8; 300] = { let mut a = [0u8; 300]; let mut i = 0; while i < 300 { a[i] = (i as u8) ^ 0x3C; i += 1 } a };
        for n in [0usize, 1, 5, 91, 300] {
            let plain: Vec<u8> = STATIC_INFO[..n].to_vec();
            let reference = rpki_verif::guard(|| Val::Key { v: 1, flags: 1, ski: [9; 20], asn: 5, info: plain.clone() }.build().wire());
            for form in 0..6 {
                acc.evals += 1; if form > 0 { acc.nontrivial += 1 }
                let wit = || format!("router key info of {n} octets, ownership form {form} (0 sole owner, 1 live clone, 2 clone dropped before, 3 view at offset 0 of a larger buffer, 4 view at offset 3, 5 static)");
                let r = rpki_verif::guard(|| -> Result<(), String> {
                    let mut big = vec![0xEEu8; 3]; big.extend_from_slice(&plain); big.extend_from_slice(&[0xDD; 5]);
                    let big = Bytes::from(big);
                    let (bytes, keep): (Bytes, Option<Bytes>) = match form {
                        0 => (Bytes::from(plain.clone()), None),
                        1 => { let b = Bytes::from(plain.clone()); (b.clone(), Some(b)) }
                        2 => { let b = Bytes::from(plain.clone()); let c = b.clone(); drop(c); (b, None) }
                        3 => { let mut v = plain.clone(); v.extend_from_slice(&[0xDD; 5]); let b = Bytes::from(v); (b.slice(..n), Some(b)) }
                        4 => (big.slice(3..3 + n), Some(big.clone())),
                        _ => (Bytes::from_static(&STATIC_INFO[..n]), None),
                    };
                    let keep_before = keep.as_ref().map(|k| k.to_vec());
                    let info = pdu::RouterKeyInfo::new(bytes).map_err(|e| e.to_string())?;
                    let key = pdu::RouterKey::new(1, 1, [9; 20], Asn::from_u32(5), info.clone());
                    let wire = Built::Key(key.clone()).wire();
                    if Ok(&wire) != reference.as_ref() { return Err(format!("written {} for a sole owner {:?}", show(&wire), reference.as_ref().map(|w| show(w)))) }
                    let back = exec(&[Rd::Read(Ty::RouterKey)], &wire, &closes(wire.len())[0]);
                    match back.steps.first().map(|s| &s.res) {
                        Some(Ok(Got::Pdu(Built::Key(k)))) => if *k != key || k.key_info().as_slice() != plain.as_slice() { return Err("read back differs".into()) },
                        other => return Err(format!("read back: {other:?}")),
                    }
                    let item = pdu::Payload::RouterKey(key.clone()).to_payload().map_err(|_| "to_payload fails")?;
                    if item.1.as_router_key().map(|k| k.key_info.as_slice().to_vec()) != Some(plain.clone()) { return Err("to_payload carries other octets".into()) }
                    if info.clone().into_bytes().as_ref() != plain.as_slice() || key.clone().into_key_info().as_slice() != plain.as_slice() || info.is_empty() != plain.is_empty() || info.len() != n {
                        return Err("accessors disagree with the octets given".into())
                    }
                    if keep.as_ref().map(|k| k.to_vec()) != keep_before { return Err("the other holder of the buffer sees different octets afterwards".into()) }
                    Ok(())
                });
                match r { Ok(Ok(())) => acc.class(if form == 0 { "identical:sole-owner" } else { "identical:shared-or-view" }), Ok(Err(d)) => { acc.fail("C07.ownership", wit, d); acc.class("violation") } Err(p) => { acc.fail("C07.ownership", wit, p); acc.class("violation") } }
            }
        }
        report(&ctx, &sp, vec![acc]);
        sp.done(true, "5 lengths x 6 ownership forms");
    }

    lap("ownership");
    //--- (8) history: the same evaluation after other operations on the same thread ---
    let sp = ctx.space("history.independent",
        "subjects: writes (own write, enum write in 3-octet pieces), reads, to_payload and Payload::read+to_payload of one PDU of every type and of pairs with the same identity but different content (same key identifier / customer / prefix), rejected reads and conversions, client steps (complete and cut); predecessors: every subject, and every PDU's write pending after k octets and dropped / failing after k octets, every reader pending after k octets and dropped / stream error after k octets / stream end after k octets, client steps dropped or failing after k octets of the reply, for EVERY k; each sequence (predecessor, then all subjects, forward and in reverse order) runs on an OS thread of its own and every observation is compared with the same subject evaluated first thing on a fresh thread (thorough: also pairs of predecessors); non-trivial = sequences whose predecessor does not run to successful completion");
    {
        let setup = rpki_verif::guard(|| {
            let hv: Vec<(Val, Built, Vec<u8>)> = history_values().into_iter().map(|v| { let b = v.build(); let w = b.wire(); (v, b, w) }).collect();
            let cs: Vec<(u8, Option<(u16, u32)>, Vec<u8>, String)> = cseeds.iter().zip(cstreams.iter())
                .filter(|(s, _)| ["reset.v2", "serial.v1", "downgrade.v2-v1"].contains(&s.name.as_str()))
                .map(|(s, st)| (s.init_v, s.state, st.clone(), s.name.clone())).collect();
            (hv, cs)
        });
        match setup {
            Err(p) => { sp.eval(); ctx.fail("C07.history.independent", "constructing the history values", p); sp.done(false, "stopped: values cannot be constructed"); }
            Ok((hv, cs)) => {
                let subjects = history_subjects(&hv, &cs);
                let baseline: Vec<String> = subjects.par_iter().map(|s| on_fresh_thread(|| (s.run)())).collect();
                let mut preds: Vec<Pred> = (0..subjects.len()).map(Pred::Subject).collect();
                for (i, (val, built, wire)) in hv.iter().enumerate() {
                    for k in 0..wire.len() {
                        for via in [false, true] {
                            if via && !built.has_enum_path() { continue }
                            preds.push(Pred::WriteCancelled(i, via, k)); preds.push(Pred::WriteError(i, via, k));
                        }
                        for r in 0..readers_for(val.ty()).len() {
                            preds.push(Pred::ReadCancelled(i, r, k)); preds.push(Pred::ReadError(i, r, k)); preds.push(Pred::ReadEof(i, r, k));
                        }
                    }
                }
                for (i, c) in cs.iter().enumerate() { for k in 0..c.2.len() { preds.push(Pred::ClientCancelled(i, k)); preds.push(Pred::ClientError(i, k)) } }
                for q in 0..2 { for k in 0..history_query(q).len() { for n in [false, true] { preds.push(Pred::ServerCut(q, k, n)) } } }
                let n_single = preds.len();
                // sequences: one predecessor; thorough: also two (over a thinned menu)
                let mut seqs: Vec<Vec<Pred>> = preds.iter().map(|p| vec![p.clone()]).collect();
                if thorough {
                    let thin: Vec<&Pred> = preds.iter().filter(|p| match p {
                        Pred::Subject(_) => true,
                        Pred::WriteCancelled(_, _, k) | Pred::WriteError(_, _, k) | Pred::ReadCancelled(_, _, k) | Pred::ReadError(_, _, k) | Pred::ReadEof(_, _, k) => *k == 9,
                        Pred::ClientCancelled(_, k) | Pred::ClientError(_, k) => *k == 30,
                        Pred::ServerCut(_, k, _) => *k == 5,
                    }).collect();
                    for a in &thin { for b in &thin { seqs.push(vec![(*a).clone(), (*b).clone()]) } }
                }
                let accs: Vec<Acc> = seqs.par_iter().map(|seq| {
                    let mut acc = Acc::default();
                    let failing = seq.iter().any(|p| !matches!(p, Pred::Subject(_)));
                    for reverse in [false, true] {
                        let order: Vec<usize> = if reverse { (0..subjects.len()).rev().collect() } else { (0..subjects.len()).collect() };
                        let obs: Vec<String> = on_fresh_thread(|| {
                            for p in seq { run_pred(p, &subjects, &hv, &cs) }
                            order.iter().map(|i| (subjects[*i].run)()).collect()
                        });
                        acc.evals += obs.len() as u64;
                        if failing { acc.nontrivial += 1 }
                        let mut same = true;
                        for (o, i) in obs.iter().zip(order.iter()) {
                            if *o != baseline[*i] {
                                same = false;
                                let d = o.bytes().zip(baseline[*i].bytes()).position(|(a, b)| a != b).unwrap_or(o.len().min(baseline[*i].len()));
                                let from = d.saturating_sub(40);
                                acc.fail("C07.history.independent",
                                    || format!("after {}{}: {}", seq.iter().map(|p| render_pred(p, &subjects, &hv, &cs)).collect::<Vec<_>>().join(" "),
                                        if reverse { " (then the subjects in reverse order)" } else { "" }, subjects[*i].name),
                                    format!("observation differs from the one on a fresh thread at character {d}: here ..{} fresh ..{}", trunc(&o[from.min(o.len())..], 160), trunc(&baseline[*i][from.min(baseline[*i].len())..], 160)));
                            }
                        }
                        acc.class(if !same { "violation" } else if failing { "independent:after-failure-or-cancellation" } else { "independent:after-success" });
                    }
                    acc
                }).collect();
                report(&ctx, &sp, accs);
                sp.set("subjects", serde_json::json!(subjects.iter().map(|s| s.name.clone()).collect::<Vec<_>>()));
                sp.set("predecessors", serde_json::json!(n_single));
                sp.set("sequences", serde_json::json!(2 * seqs.len()));
                sp.sample_str(|| format!("after {}: {}", render_pred(&preds[subjects.len() + 20], &subjects, &hv, &cs), subjects[2].name));
                sp.done(true, &format!("{} subjects after each of {} predecessors{}, both subject orders, one OS thread per sequence", subjects.len(), n_single, if thorough { " and after pairs over a thinned menu" } else { "" }));
            }
        }
    }

    lap("history.independent");
    space_forms(&ctx);
    space_forms_history(&ctx);
    lap("forms");
    space_server_route(&ctx);
    lap("route.server");
    space_end_to_end(&ctx);
    lap("route.end_to_end");

    ctx.finish();
}
