//! C15 — SLURM: a payload item is dropped exactly when a filter of its kind
//! matches; files survive JSON; assertions yield exactly their fields.
//!
//! Spaces (enumerated completely):
//!  * every single filter against every payload item of every kind, with a
//!    dense prefix grid (every length of both families along one address and
//!    its sibling) — through the filter's own methods;
//!  * all filter lists of length <= 2 per kind over a criterion alphabet
//!    (absent / equal / covering / more specific / disjoint / other family /
//!    default route x AS absent / equal / different, likewise SKI and customer
//!    AS), all three kinds combined, against payload items of each kind and
//!    their near-misses — through `SlurmFile::drop_payload` and
//!    `ValidationOutputFilters::drop_payload`;
//!  * files: every list of <= 2 entries per section over the full entry
//!    alphabet of that section (comments with quotes, backslashes, control and
//!    non-ASCII characters; prefixes incl. IPv4-mapped / IPv4-compatible IPv6
//!    and other unusual spellings; max-length absent / = length / longer / family
//!    maximum; key info of 0..4 and 91 octets; 0..3 providers), all sections
//!    combined over small menus with the ASPA sections absent / empty /
//!    filled: compact, pretty, writer forms parsed back; `iter_payload`;
//!  * the writer as a dimension: `to_writer` / `to_writer_pretty` into sinks that
//!    take only part of a buffer per call, fixed slices, interrupted, buffered and
//!    failing sinks, read back through slow readers;
//!  * the total size of the document (64 KiB .. 32 MiB, thorough 128 / 256 MiB),
//!    reached in ten ways, through every serialise route x every parse route;
//!  * object-level history: all short operation sequences (queries, edits of
//!    every public field, clones, JSON round trips, parts swapped between two
//!    files, version changes) on one file, every observer afterwards compared
//!    with the model and with a freshly built twin in the final state.
//!
//! Reference model: plain tuples; the drop predicate is written from RFC 8416
//! section 3.3 / the property text; prefix covering is decided on integers.

use std::collections::BTreeMap;
use std::io::{self, Read, Write};
use std::net::{IpAddr, Ipv4Addr, Ipv6Addr};
use std::str::FromStr;
use std::sync::{Arc, Mutex};
use bytes::Bytes;
use rayon::prelude::*;
use rpki::crypto::KeyIdentifier;
use rpki::resources::addr::{MaxLenPrefix, Prefix};
use rpki::resources::asn::Asn;
use rpki::rtr::payload::{Payload, PayloadType};
use rpki::rtr::pdu::{ProviderAsns, RouterKeyInfo};
use rpki::slurm::{AspaAssertion, AspaFilter, Base64KeyInfo, BgpsecAssertion, BgpsecFilter, LocallyAddedAssertions,
    PrefixAssertion, PrefixFilter, SlurmFile, ValidationOutputFilters};
use rpki_verif::{guard, hex, Ctx};

//------------ model ---------------------------------------------------------

#[derive(Clone, Copy, Debug, PartialEq, Eq, PartialOrd, Ord, Hash)]
struct MPfx { v4: bool, bits: u128, len: u8 } // bits: the address as an integer (IPv4 in the low 32 bits)

impl MPfx {
    fn v4(a: [u8; 4], len: u8) -> Self { MPfx { v4: true, bits: u32::from_be_bytes(a) as u128, len } }
    fn v6(hi: u64, lo: u64, len: u8) -> Self { MPfx { v4: false, bits: ((hi as u128) << 64) | lo as u128, len } }
    fn width(self) -> u32 { if self.v4 { 32 } else { 128 } }
    /// the prefix of `len` bits of an address, host bits cleared
    fn of_addr(v4: bool, addr: u128, len: u8) -> Self {
        let w = if v4 { 32u32 } else { 128 };
        let bits = if len == 0 { 0 } else { (addr >> (w - len as u32)) << (w - len as u32) };
        MPfx { v4, bits, len }
    }
    fn ip(self) -> IpAddr { if self.v4 { IpAddr::V4(Ipv4Addr::from(self.bits as u32)) } else { IpAddr::V6(Ipv6Addr::from(self.bits)) } }
    fn lib(self) -> Prefix { Prefix::new(self.ip(), self.len).expect("model prefix is canonical") }
    /// RFC 8416: the filter prefix "covers" = is equal to or less specific than the origin's prefix
    fn covers(self, o: MPfx) -> bool {
        if self.v4 != o.v4 || self.len > o.len { return false }
        if self.len == 0 { return true }
        let sh = self.width() - self.len as u32;
        (self.bits >> sh) == (o.bits >> sh)
    }
    fn text(self) -> String { format!("{}/{}", self.ip(), self.len) }
}

type Cm = Option<&'static str>;

#[derive(Clone, Debug, PartialEq, Eq, Hash)]
struct MPF { prefix: Option<MPfx>, asn: Option<u32>, comment: Cm }
#[derive(Clone, Debug, PartialEq, Eq, Hash)]
struct MBF { ski: Option<[u8; 20]>, asn: Option<u32>, comment: Cm }
#[derive(Clone, Debug, PartialEq, Eq, Hash)]
struct MAF { customer: Option<u32>, comment: Cm }

#[derive(Clone, Debug, PartialEq, Eq)]
enum MPay {
    Origin { p: MPfx, maxlen: Option<u8>, asn: u32 },
    Key { ski: [u8; 20], asn: u32, info: Vec<u8> },
    Aspa { customer: u32, providers: Vec<u32> },
}

impl MPF {
    fn lib(&self) -> PrefixFilter { PrefixFilter::new(self.prefix.map(|p| p.lib()), self.asn.map(Asn::from_u32), self.comment.map(String::from)) }
    fn matches(&self, p: MPfx, asn: u32) -> bool {
        (self.prefix.is_some() || self.asn.is_some())
            && self.prefix.map_or(true, |f| f.covers(p)) && self.asn.map_or(true, |a| a == asn)
    }
    fn text(&self) -> String { format!("{{prefix:{},asn:{}{}}}", self.prefix.map_or("-".into(), |p| p.text()), self.asn.map_or("-".into(), |a| a.to_string()), cm_text(self.comment)) }
}
impl MBF {
    fn lib(&self) -> BgpsecFilter { BgpsecFilter::new(self.ski.map(KeyIdentifier::from), self.asn.map(Asn::from_u32), self.comment.map(String::from)) }
    fn matches(&self, ski: &[u8; 20], asn: u32) -> bool {
        (self.ski.is_some() || self.asn.is_some())
            && self.ski.map_or(true, |s| &s == ski) && self.asn.map_or(true, |a| a == asn)
    }
    fn text(&self) -> String { format!("{{SKI:{},asn:{}{}}}", self.ski.map_or("-".into(), |s| hex(&s[..2])), self.asn.map_or("-".into(), |a| a.to_string()), cm_text(self.comment)) }
}
impl MAF {
    fn lib(&self) -> AspaFilter { AspaFilter::new(self.customer.map(Asn::from_u32), self.comment.map(String::from)) }
    fn matches(&self, customer: u32) -> bool { self.customer == Some(customer) }
    fn text(&self) -> String { format!("{{customerAsid:{}{}}}", self.customer.map_or("-".into(), |a| a.to_string()), cm_text(self.comment)) }
}
fn cm_text(c: Cm) -> String { match c { None => String::new(), Some(s) => format!(",comment:{s:?}") } }

impl MPay {
    fn lib(&self) -> Payload {
        match self {
            MPay::Origin { p, maxlen, asn } => Payload::origin(MaxLenPrefix::new(p.lib(), *maxlen).expect("model max-len valid"), Asn::from_u32(*asn)),
            MPay::Key { ski, asn, info } => Payload::router_key(KeyIdentifier::from(*ski), Asn::from_u32(*asn), RouterKeyInfo::new(Bytes::from(info.clone())).expect("key info")),
            MPay::Aspa { customer, providers } => Payload::aspa(Asn::from_u32(*customer), ProviderAsns::try_from_iter(providers.iter().map(|a| Asn::from_u32(*a))).expect("providers")),
        }
    }
    fn text(&self) -> String {
        match self {
            MPay::Origin { p, maxlen, asn } => format!("origin({}{} AS{asn})", p.text(), maxlen.map_or(String::new(), |m| format!("-{m}"))),
            MPay::Key { ski, asn, info } => format!("router_key(SKI {}.. AS{asn} info {} octets)", hex(&ski[..2]), info.len()),
            MPay::Aspa { customer, providers } => format!("aspa(AS{customer} providers {providers:?})"),
        }
    }
    fn kind(&self) -> &'static str { match self { MPay::Origin { .. } => "origin", MPay::Key { .. } => "router_key", MPay::Aspa { .. } => "aspa" } }
}

/// What the library's payload value holds, read through its public fields.
fn fields_of(p: &Payload) -> MPay {
    match p {
        Payload::Origin(o) => {
            let pf = o.prefix.prefix();
            let (v4, bits) = match pf.addr() { IpAddr::V4(a) => (true, u32::from(a) as u128), IpAddr::V6(a) => (false, u128::from(a)) };
            MPay::Origin { p: MPfx { v4, bits, len: pf.len() }, maxlen: o.prefix.max_len(), asn: o.asn.into_u32() }
        }
        Payload::RouterKey(k) => { let mut s = [0u8; 20]; s.copy_from_slice(k.key_identifier.as_slice()); MPay::Key { ski: s, asn: k.asn.into_u32(), info: k.key_info.as_slice().to_vec() } }
        Payload::Aspa(a) => MPay::Aspa { customer: a.customer.into_u32(), providers: a.providers.iter().map(|x| x.into_u32()).collect() },
    }
}

/// Accessor sweep: every accessor of a payload item must agree with the
/// public fields `fields_of` reads (differential, no expectations of its own).
fn accessor_disagreement(p: &Payload) -> Option<String> {
    let m = fields_of(p);
    match (p, &m) {
        (Payload::Origin(o), MPay::Origin { p: mp, .. }) => {
            if o.is_v4() != mp.v4 || o.is_v4() != o.prefix.prefix().is_v4() || o.is_v4() != o.prefix.addr().is_ipv4() { return Some(format!("RouteOrigin::is_v4() = {} for {}", o.is_v4(), m.text())) }
            if p.payload_type() != PayloadType::Origin { return Some(format!("payload_type() = {:?} for an origin", p.payload_type())) }
            if p.to_origin() != Some(*o) || p.as_router_key().is_some() || p.as_aspa().is_some() { return Some("to_origin / as_router_key / as_aspa disagree with the variant".into()) }
        }
        (Payload::RouterKey(k), MPay::Key { info, .. }) => {
            if p.payload_type() != PayloadType::RouterKey { return Some(format!("payload_type() = {:?} for a router key", p.payload_type())) }
            if k.key_info.clone().into_bytes().as_ref() != &info[..] || AsRef::<[u8]>::as_ref(&k.key_info) != &info[..] { return Some("RouterKeyInfo::into_bytes / as_ref differ from as_slice".into()) }
            if p.as_router_key() != Some(k) || p.to_origin().is_some() || p.as_aspa().is_some() { return Some("to_origin / as_router_key / as_aspa disagree with the variant".into()) }
        }
        (Payload::Aspa(a), MPay::Aspa { customer, providers }) => {
            if p.payload_type() != PayloadType::Aspa { return Some(format!("payload_type() = {:?} for an ASPA", p.payload_type())) }
            if a.key().into_u32() != *customer { return Some(format!("Aspa::key() = {} but customer = {customer}", a.key())) }
            if a.providers.asn_count() as usize != providers.len() || a.providers.len() != 4 * providers.len() || a.providers.is_empty() != providers.is_empty() { return Some(format!("ProviderAsns::asn_count() = {} len() = {} for {} providers", a.providers.asn_count(), a.providers.len(), providers.len())) }
            if p.as_aspa() != Some(a) || p.to_origin().is_some() || p.as_router_key().is_some() { return Some("to_origin / as_router_key / as_aspa disagree with the variant".into()) }
        }
        _ => return Some("fields_of changed the kind".into()),
    }
    None
}

/// The RFC 8416 decision: Some(kind of the matching filter) or None (kept).
fn model_drop(pf: &[MPF], bf: &[MBF], af: Option<&[MAF]>, pay: &MPay) -> bool {
    match pay {
        MPay::Origin { p, asn, .. } => pf.iter().any(|f| f.matches(*p, *asn)),
        MPay::Key { ski, asn, .. } => bf.iter().any(|f| f.matches(ski, *asn)),
        MPay::Aspa { customer, .. } => af.map_or(false, |l| l.iter().any(|f| f.matches(*customer))),
    }
}

// assertions
#[derive(Clone, Debug, PartialEq, Eq, Hash)]
struct MPA { p: MPfx, maxlen: Option<u8>, asn: u32, comment: Cm }
#[derive(Clone, Debug, PartialEq, Eq, Hash)]
struct MBA { asn: u32, ski: [u8; 20], info: Vec<u8>, comment: Cm }
#[derive(Clone, Debug, PartialEq, Eq, Hash)]
struct MAA { customer: u32, providers: Vec<u32>, comment: Cm }

impl MPA {
    fn lib(&self) -> PrefixAssertion { PrefixAssertion::new(MaxLenPrefix::new(self.p.lib(), self.maxlen).expect("max-len"), Asn::from_u32(self.asn), self.comment.map(String::from)) }
    fn pay(&self) -> MPay { MPay::Origin { p: self.p, maxlen: self.maxlen, asn: self.asn } }
    fn text(&self) -> String { format!("{{prefix:{},maxPrefixLength:{},asn:{}{}}}", self.p.text(), self.maxlen.map_or("-".into(), |m| m.to_string()), self.asn, cm_text(self.comment)) }
}
impl MBA {
    fn lib(&self) -> BgpsecAssertion { BgpsecAssertion::new(Asn::from_u32(self.asn), KeyIdentifier::from(self.ski), Base64KeyInfo::try_from(self.info.clone()).expect("key info"), self.comment.map(String::from)) }
    fn pay(&self) -> MPay { MPay::Key { ski: self.ski, asn: self.asn, info: self.info.clone() } }
    fn text(&self) -> String { format!("{{asn:{},SKI:{}..,routerPublicKey:{} octets{}}}", self.asn, hex(&self.ski[..2]), self.info.len(), cm_text(self.comment)) }
}
impl MAA {
    fn lib(&self) -> AspaAssertion { AspaAssertion::new(Asn::from_u32(self.customer), ProviderAsns::try_from_iter(self.providers.iter().map(|a| Asn::from_u32(*a))).expect("providers"), self.comment.map(String::from)) }
    fn pay(&self) -> MPay { MPay::Aspa { customer: self.customer, providers: self.providers.clone() } }
    fn text(&self) -> String { format!("{{customerAsn:{},providerAsns:{:?}{}}}", self.customer, self.providers, cm_text(self.comment)) }
}

#[derive(Clone, Debug, Default, PartialEq, Eq, Hash)]
struct MFile { pf: Vec<MPF>, bf: Vec<MBF>, af: Option<Vec<MAF>>, pa: Vec<MPA>, ba: Vec<MBA>, aa: Option<Vec<MAA>> }

impl MFile {
    fn lib_filters(&self) -> ValidationOutputFilters {
        ValidationOutputFilters { prefix: self.pf.iter().map(|f| f.lib()).collect(), bgpsec: self.bf.iter().map(|f| f.lib()).collect(), aspa: self.af.as_ref().map(|l| l.iter().map(|f| f.lib()).collect()) }
    }
    fn lib_assertions(&self) -> LocallyAddedAssertions {
        LocallyAddedAssertions { prefix: self.pa.iter().map(|a| a.lib()).collect(), bgpsec: self.ba.iter().map(|a| a.lib()).collect(), aspa: self.aa.as_ref().map(|l| l.iter().map(|a| a.lib()).collect()) }
    }
    fn lib(&self) -> SlurmFile { SlurmFile::new(self.lib_filters(), self.lib_assertions()) }
    fn payloads(&self) -> Vec<MPay> {
        self.pa.iter().map(|a| a.pay()).chain(self.ba.iter().map(|a| a.pay())).chain(self.aa.iter().flatten().map(|a| a.pay())).collect()
    }
    fn text(&self) -> String {
        fn l<T>(v: &[T], f: impl Fn(&T) -> String) -> String { format!("[{}]", v.iter().map(f).collect::<Vec<_>>().join(",")) }
        format!("prefixFilters={} bgpsecFilters={} aspaFilters={} prefixAssertions={} bgpsecAssertions={} aspaAssertions={}",
            l(&self.pf, |x| x.text()), l(&self.bf, |x| x.text()), self.af.as_ref().map_or("absent".into(), |v| l(v, |x| x.text())),
            l(&self.pa, |x| x.text()), l(&self.ba, |x| x.text()), self.aa.as_ref().map_or("absent".into(), |v| l(v, |x| x.text())))
    }
}

//------------ own JSON writer (RFC 8416 member names) -------------------------

fn json_str(s: &str) -> String {
    let mut o = String::from("\"");
    for c in s.chars() {
        match c {
            '"' => o.push_str("\\\""),
            '\\' => o.push_str("\\\\"),
            c if (c as u32) < 0x20 => o.push_str(&format!("\\u{:04x}", c as u32)),
            c => o.push(c),
        }
    }
    o.push('"');
    o
}

fn b64url(data: &[u8]) -> String {
    const A: &[u8; 64] = b"ABCDEFGHIJKLMNOPQRSTUVWXYZabcdefghijklmnopqrstuvwxyz0123456789-_";
    let mut o = String::new();
    for ch in data.chunks(3) {
        let n = (ch[0] as u32) << 16 | (*ch.get(1).unwrap_or(&0) as u32) << 8 | *ch.get(2).unwrap_or(&0) as u32;
        o.push(A[(n >> 18) as usize & 63] as char); o.push(A[(n >> 12) as usize & 63] as char);
        if ch.len() > 1 { o.push(A[(n >> 6) as usize & 63] as char) }
        if ch.len() > 2 { o.push(A[n as usize & 63] as char) }
    }
    o
}

fn obj(members: Vec<Option<String>>) -> String { format!("{{{}}}", members.into_iter().flatten().collect::<Vec<_>>().join(",")) }
fn arr<T>(v: &[T], f: impl Fn(&T) -> String) -> String { format!("[{}]", v.iter().map(f).collect::<Vec<_>>().join(",")) }
fn cm_json(c: Cm) -> Option<String> { c.map(|c| format!("\"comment\":{}", json_str(c))) }

impl MPF { fn json(&self) -> String { obj(vec![self.prefix.map(|p| format!("\"prefix\":\"{}\"", p.text())), self.asn.map(|a| format!("\"asn\":{a}")), cm_json(self.comment)]) } }
impl MBF { fn json(&self) -> String { obj(vec![self.ski.map(|k| format!("\"SKI\":\"{}\"", b64url(&k))), self.asn.map(|a| format!("\"asn\":{a}")), cm_json(self.comment)]) } }
impl MAF { fn json(&self) -> String { obj(vec![self.customer.map(|a| format!("\"customerAsid\":{a}")), cm_json(self.comment)]) } }
impl MPA { fn json(&self) -> String { obj(vec![Some(format!("\"prefix\":\"{}\"", self.p.text())), Some(format!("\"asn\":{}", self.asn)), self.maxlen.map(|m| format!("\"maxPrefixLength\":{m}")), cm_json(self.comment)]) } }
impl MBA { fn json(&self) -> String { obj(vec![Some(format!("\"asn\":{}", self.asn)), Some(format!("\"SKI\":\"{}\"", b64url(&self.ski))), Some(format!("\"routerPublicKey\":\"{}\"", b64url(&self.info))), cm_json(self.comment)]) } }
impl MAA { fn json(&self) -> String { obj(vec![Some(format!("\"customerAsn\":{}", self.customer)), Some(format!("\"providerAsns\":{}", arr(&self.providers, |a| a.to_string()))), cm_json(self.comment)]) } }

impl MFile {
    /// The file as RFC 8416 text. An absent ASPA section is either left out
    /// or written as `null` (`absent_as_null`).
    fn json(&self, version: u8, absent_as_null: bool) -> String {
        let opt = |name: &str, v: Option<String>| match v { Some(t) => Some(format!("\"{name}\":{t}")), None if absent_as_null => Some(format!("\"{name}\":null")), None => None };
        obj(vec![
            Some(format!("\"slurmVersion\":{version}")),
            Some(format!("\"validationOutputFilters\":{}", obj(vec![
                Some(format!("\"prefixFilters\":{}", arr(&self.pf, |x| x.json()))), Some(format!("\"bgpsecFilters\":{}", arr(&self.bf, |x| x.json()))),
                opt("aspaFilters", self.af.as_ref().map(|l| arr(l, |x| x.json())))]))),
            Some(format!("\"locallyAddedAssertions\":{}", obj(vec![
                Some(format!("\"prefixAssertions\":{}", arr(&self.pa, |x| x.json()))), Some(format!("\"bgpsecAssertions\":{}", arr(&self.ba, |x| x.json()))),
                opt("aspaAssertions", self.aa.as_ref().map(|l| arr(l, |x| x.json())))]))),
        ])
    }
}

//------------ a JSON tree whose member order can be changed ------------------

#[derive(Clone, Debug)]
enum J { Obj(Vec<(String, J)>), Arr(Vec<J>), Raw(String) }

fn jparse(s: &[u8], i: &mut usize) -> J {
    let ws = |i: &mut usize| while *i < s.len() && (s[*i] as char).is_ascii_whitespace() { *i += 1 };
    let string = |i: &mut usize| -> String { let st = *i; *i += 1; while s[*i] != b'"' { if s[*i] == b'\\' { *i += 1 } *i += 1 } *i += 1; String::from_utf8_lossy(&s[st..*i]).to_string() };
    ws(i);
    match s[*i] {
        b'{' => { *i += 1; let mut m = Vec::new(); loop { ws(i); if s[*i] == b'}' { *i += 1; break } if s[*i] == b',' { *i += 1; continue } let k = string(i); ws(i); *i += 1; let v = jparse(s, i); m.push((k, v)) } J::Obj(m) }
        b'[' => { *i += 1; let mut m = Vec::new(); loop { ws(i); if s[*i] == b']' { *i += 1; break } if s[*i] == b',' { *i += 1; continue } m.push(jparse(s, i)) } J::Arr(m) }
        b'"' => J::Raw(string(i)),
        _ => { let st = *i; while *i < s.len() && !b",]} \n\t\r".contains(&s[*i]) { *i += 1 } J::Raw(String::from_utf8_lossy(&s[st..*i]).to_string()) }
    }
}

impl J {
    fn parse(text: &str) -> J { jparse(text.as_bytes(), &mut 0) }
    fn write(&self) -> String {
        match self { J::Raw(r) => r.clone(), J::Arr(a) => format!("[{}]", a.iter().map(|x| x.write()).collect::<Vec<_>>().join(",")),
            J::Obj(m) => format!("{{{}}}", m.iter().map(|(k, v)| format!("{k}:{}", v.write())).collect::<Vec<_>>().join(",")) }
    }
    /// member counts of all objects, in depth-first order
    fn objects(&self, out: &mut Vec<usize>) {
        match self { J::Raw(_) => {} J::Arr(a) => for x in a { x.objects(out) }, J::Obj(m) => { out.push(m.len()); for (_, v) in m { v.objects(out) } } }
    }
    /// applies `f` to the members of the idx-th object (depth-first), or to all when idx is None
    fn reorder(&mut self, idx: Option<usize>, counter: &mut usize, f: &dyn Fn(&mut Vec<(String, J)>)) {
        match self { J::Raw(_) => {} J::Arr(a) => for x in a { x.reorder(idx, counter, f) },
            J::Obj(m) => { let me = *counter; *counter += 1; for (_, v) in m.iter_mut() { v.reorder(idx, counter, f) } if idx.map_or(true, |i| i == me) { f(m) } } }
    }
}

/// Orders to try for an object of n members: all permutations up to 4, else sorted / reversed / every rotation.
fn member_orders(n: usize) -> Vec<Vec<usize>> {
    if n <= 4 { rpki_verif::engine::enumerate::permutations(n) } else {
        let id: Vec<usize> = (0..n).collect();
        let mut v = vec![id.clone(), id.iter().rev().copied().collect()];
        for r in 1..n { v.push((0..n).map(|i| (i + r) % n).collect()) }
        v
    }
}

/// Every object of the document with its members in every order (one object
/// at a time), plus all objects at once sorted by key / reversed / rotated:
/// the verdict and the parsed file must be those of the given text.
fn check_member_orders(lf: &mut Lf, oc: &mut Oc, text: &str, name: &dyn Fn() -> String) -> u64 {
    let tree = J::parse(text);
    let base = guard(|| SlurmFile::from_str(text).map_err(|e| e.to_string()));
    let mut sizes = Vec::new(); tree.objects(&mut sizes);
    let mut variants: Vec<(String, String)> = Vec::new();
    for (idx, &n) in sizes.iter().enumerate() { for perm in member_orders(n) {
        if perm.iter().enumerate().all(|(i, p)| i == *p) { continue }
        let mut t = tree.clone();
        t.reorder(Some(idx), &mut 0, &|m| { let old = m.clone(); for (i, p) in perm.iter().enumerate() { m[i] = old[*p].clone() } });
        variants.push((format!("object #{idx} in order {perm:?}"), t.write()));
    }}
    for (label, f) in [("all objects sorted by key", (|m: &mut Vec<(String, J)>| m.sort_by(|a, b| a.0.cmp(&b.0))) as fn(&mut Vec<(String, J)>)), ("all objects sorted by key, descending", |m| { m.sort_by(|a, b| b.0.cmp(&a.0)) }),
        ("all objects reversed", |m| m.reverse()), ("all objects rotated", |m| if !m.is_empty() { m.rotate_left(1) })] {
        let mut t = tree.clone(); t.reorder(None, &mut 0, &f); variants.push((label.to_string(), t.write()));
    }
    let n = variants.len() as u64;
    for (label, v) in variants {
        match (guard(|| SlurmFile::from_str(&v).map_err(|e| e.to_string())), &base) {
            (Err(p), _) => lf.fail("C15.json.no_panic", || format!("{} {label}", clip(&name())), || p.clone()),
            (Ok(Ok(g)), Ok(Ok(f))) => if g == *f { bump(oc, "same-file-in-other-order") } else { lf.fail("C15.json.member_order", || format!("{} {label}", clip(&name())), || format!("parses to a different file than the original order; text={}", clip(&v))) },
            (Ok(Err(_)), Ok(Err(_))) => bump(oc, "rejected-in-every-order"),
            (Ok(Ok(_)), Ok(Err(e))) => lf.fail("C15.json.member_order", || format!("{} {label}", clip(&name())), || format!("accepted, but the original order is rejected ({e}); text={}", clip(&v))),
            (Ok(Err(e)), Ok(Ok(_))) => lf.fail("C15.json.member_order", || format!("{} {label}", clip(&name())), || format!("rejected ({e}), but the original order is accepted; text={}", clip(&v))),
            (_, Err(_)) => {}
        }
    }
    n
}

//------------ subjects and predecessors for the history dimension -----------

type Act = Arc<dyn Fn() -> String + Send + Sync>;
fn act(name: &str, f: impl Fn() -> String + Send + Sync + 'static) -> (String, Act) { (name.to_string(), Arc::new(f)) }
fn observe(a: &Act) -> String { guard(|| a()).unwrap_or_else(|p| format!("PANIC {p}")) }
fn on_fresh_thread<T: Send + 'static>(f: impl FnOnce() -> T + Send + 'static) -> T {
    std::thread::Builder::new().stack_size(1 << 20).spawn(f).expect("spawn").join().expect("history thread does not panic: every action is guarded")
}

/// A writer that panics once `left` octets have been taken.
struct PanicAfter { left: usize }
impl Write for PanicAfter {
    fn write(&mut self, b: &[u8]) -> io::Result<usize> { if self.left == 0 { panic!("sink panics") } let n = b.len().min(self.left); self.left -= n; Ok(n) }
    fn flush(&mut self) -> io::Result<()> { Ok(()) }
}
/// A reader that fails after `left` octets.
struct FailingReader<'a> { data: &'a [u8], left: usize }
impl Read for FailingReader<'_> {
    fn read(&mut self, b: &mut [u8]) -> io::Result<usize> {
        if self.left == 0 { return Err(io::Error::other("source broke")) }
        let n = b.len().min(self.left).min(self.data.len()); b[..n].copy_from_slice(&self.data[..n]); self.data = &self.data[n..]; self.left -= n; Ok(n)
    }
}

fn history_files() -> Vec<(&'static str, MFile)> {
    let pa = MPA { p: MPfx::v4([192, 0, 2, 0], 24), maxlen: Some(26), asn: 64496, comment: Some("a") };
    let ba = MBA { asn: 64496, ski: K1, info: vec![0x30, 0x59, 0x30, 0x13], comment: None };
    vec![
        ("skis", MFile { bf: vec![MBF { ski: Some(K2), asn: None, comment: None }, MBF { ski: Some(KF), asn: Some(1), comment: Some("c") }], ba: vec![ba.clone(), MBA { asn: 1, ski: K0, info: vec![], comment: Some(TRICKY) }], ..Default::default() }),
        ("prefixes", MFile { pf: vec![MPF { prefix: Some(MPfx::v6(0, 0x0000_ffff_c000_0200, 120)), asn: Some(7), comment: None }], pa: vec![pa.clone(), MPA { p: MPfx::v6(0x2001_0db8_0000_0000, 0, 32), maxlen: None, asn: 0, comment: None }], ..Default::default() }),
        ("aspa", MFile { af: Some(vec![MAF { customer: Some(64496), comment: None }]), aa: Some(vec![MAA { customer: 64497, providers: vec![1, 2, u32::MAX], comment: Some("p") }]), ..Default::default() }),
        ("all", MFile { pf: vec![MPF { prefix: None, asn: Some(64496), comment: Some(TRICKY) }], bf: vec![MBF { ski: Some(K1), asn: Some(64496), comment: None }], af: Some(vec![]), pa: vec![pa], ba: vec![ba], aa: Some(vec![MAA { customer: 1, providers: vec![], comment: None }]) }),
        ("empty", MFile::default()),
    ]
}

fn subjects() -> Vec<(String, Act)> {
    let mut v: Vec<(String, Act)> = Vec::new();
    for (name, m) in history_files() {
        let m2 = m.clone();
        v.push(act(&format!("round trip of file {name}"), move || { let f = m2.lib(); let s = f.to_string(); let p = f.to_string_pretty(); let mut w = Vec::new(); let e = f.to_writer(&mut w).is_ok(); let mut w2 = Vec::new(); let e2 = f.to_writer_pretty(&mut w2).is_ok();
            format!("{s} | pretty {} octets | writer ok {e} {e2} same {} {} | back {:?} {:?} | payload {:?}", p.len(), w == s.as_bytes(), w2 == p.as_bytes(), SlurmFile::from_str(&s).map(|g| g == f).map_err(|e| e.to_string()), SlurmFile::from_reader(&w2[..]).map(|g| g == f).map_err(|e| e.to_string()),
                f.assertions.iter_payload().map(|x| fields_of(&x).text()).collect::<Vec<_>>()) }));
        let m3 = m.clone();
        v.push(act(&format!("parse of hand-written text of file {name}"), move || { let t = m3.json(2, true); format!("{:?}", SlurmFile::from_str(&t).map(|f| f.to_string()).map_err(|e| e.to_string())) }));
        let m4 = m;
        v.push(act(&format!("drop decisions of file {name}"), move || { let f = m4.lib();
            [MPay::Origin { p: MPfx::v4([192, 0, 2, 0], 24), maxlen: None, asn: 64496 }, MPay::Origin { p: MPfx::v6(0, 0x0000_ffff_c000_0201, 128), maxlen: None, asn: 7 }, MPay::Key { ski: K1, asn: 64496, info: vec![1] }, MPay::Key { ski: K2, asn: 5, info: vec![] },
             MPay::Aspa { customer: 64496, providers: vec![1] }, MPay::Aspa { customer: 1, providers: vec![64496] }].iter().map(|p| if f.drop_payload(&p.lib()) { 'D' } else { 'k' }).collect::<String>() }));
    }
    for t in [r#"{"slurmVersion":3,"validationOutputFilters":{"prefixFilters":[],"bgpsecFilters":[]},"locallyAddedAssertions":{"prefixAssertions":[],"bgpsecAssertions":[]}}"#,
        r#"{"slurmVersion":1,"validationOutputFilters":{"prefixFilters":[],"bgpsecFilters":[{"SKI":"PI8aIgURlvsA_36AAQIDBKq7zN"}]},"locallyAddedAssertions":{"prefixAssertions":[],"bgpsecAssertions":[]}}"#,
        r#"{"slurmVersion":1,"validationOutputFilters":{"prefixFilters":[],"bgpsecFilters":[]},"locallyAddedAssertions":{"prefixAssertions":[{"prefix":"192.0.2.0/24","asn":1,"maxPrefixLength":23}],"bgpsecAssertions":[]}}"#,
        r#"{"slurmVersion":1,"validationOutputFilters":{"prefixFilters":[],"bgpsecFilters":[]},"locallyAddedAssertions":{"prefixAssertions":[{"maxPrefixLength":25,"asn":1,"prefix":"192.0.2.0/24"}],"bgpsecAssertions":[{"routerPublicKey":"Zm9v","SKI":"PI8aIgURlvsA_36AAQIDBKq7zN0","asn":4294967295}]}}"#,
        "{\"slurmVersion\":1,", "", "[]"] {
        v.push(act(&format!("parse of {}", clip(t)), move || format!("{:?}", SlurmFile::from_str(t).map(|f| (f.to_string(), f.assertions.iter_payload().map(|x| fields_of(&x).text()).collect::<Vec<_>>())).map_err(|e| e.to_string()))));
    }
    v.push(act("Base64KeyInfo / Value route", || { let k = Base64KeyInfo::try_from(vec![0xfb, 0xff, 0x3e, 0, 1]).unwrap(); let f = history_files()[0].1.lib();
        format!("{k} {:?} {:?} {:?}", Base64KeyInfo::from_str("-_8-AAE").map(|x| x == k).map_err(|_| ()), serde_json::to_value(&f).ok().map(|v| v.to_string()), serde_json::to_value(&f).ok().and_then(|v| serde_json::from_value::<SlurmFile>(v).ok()).map(|g| g == f)) }));
    v
}

fn predecessors(thorough: bool) -> Vec<(String, Act)> {
    let mut v: Vec<(String, Act)> = Vec::new();
    let files = history_files();
    // writers that stop at every k: a fixed slice of k octets, a sink that breaks after k, a sink that panics after k
    for (name, m) in files.iter().take(if thorough { 5 } else { 2 }).chain(files.iter().skip(3).take(1)) { for pretty in [false, true] {
        let len = guard(|| { let f = m.lib(); if pretty { f.to_string_pretty().len() } else { f.to_string().len() } }).unwrap_or(600);
        for k in 0..=len { for kind in 0..3u8 {
            if kind == 2 && pretty { continue }
            let m = m.clone();
            v.push(act(&format!("{} of file {name} into a sink that {} after {k} octets", if pretty { "to_writer_pretty" } else { "to_writer" }, ["is full", "breaks", "panics"][kind as usize]), move || { let f = m.lib();
                let go = |w: &mut dyn Write| if pretty { f.to_writer_pretty(w).is_ok() } else { f.to_writer(w).is_ok() };
                match kind { 0 => { let mut buf = vec![0u8; k]; format!("{}", go(&mut &mut buf[..])) } 1 => format!("{}", go(&mut FailAfter { left: k, got: Vec::new() })), _ => format!("{:?}", guard(|| go(&mut PanicAfter { left: k })).is_ok()) } }));
        }}
    }}
    // parsers that stop at every stage: the text cut at every k; a source that breaks after k
    for (name, m) in files.iter().take(2).chain(files.iter().skip(3).take(1)) {
        let text: &'static str = leak(m.json(2, false));
        for k in 0..text.len() {
            if !text.is_char_boundary(k) { continue }
            v.push(act(&format!("from_str of the text of file {name} cut at {k}"), move || format!("{}", SlurmFile::from_str(&text[..k]).is_ok())));
            v.push(act(&format!("from_reader of the text of file {name}, source breaking after {k}"), move || format!("{}", SlurmFile::from_reader(FailingReader { data: text.as_bytes(), left: k }).is_ok())));
        }
    }
    // successes on other files, small and large
    v.push(act("to_string of a file with 300 router keys", || { let ba: Vec<MBA> = (0..300).map(|i| { let mut k = K1; k[0] = i as u8; k[1] = (i >> 8) as u8; MBA { asn: i, ski: k, info: vec![i as u8; 91], comment: None } }).collect();
        let f = MFile { ba, ..Default::default() }.lib(); format!("{}", SlurmFile::from_str(&f.to_string()).map(|g| g == f).unwrap_or(false)) }));
    v.extend(subjects().into_iter().map(|(n, a)| (format!("subject: {n}"), a)));
    v
}

//------------ sinks and sources for the writer dimension --------------------

/// Accepts at most `k` octets per call.
struct Chunk { k: usize, got: Vec<u8> }
impl Write for Chunk {
    fn write(&mut self, b: &[u8]) -> io::Result<usize> { let n = b.len().min(self.k); self.got.extend_from_slice(&b[..n]); Ok(n) }
    fn flush(&mut self) -> io::Result<()> { Ok(()) }
}
/// Takes one octet on the first call, everything afterwards.
struct FirstOne { first: bool, got: Vec<u8> }
impl Write for FirstOne {
    fn write(&mut self, b: &[u8]) -> io::Result<usize> {
        let n = if self.first && !b.is_empty() { self.first = false; 1 } else { b.len() };
        self.got.extend_from_slice(&b[..n]); Ok(n)
    }
    fn flush(&mut self) -> io::Result<()> { Ok(()) }
}
/// Reports ErrorKind::Interrupted once, then accepts at most `k` per call.
struct IntrOnce { done: bool, k: usize, got: Vec<u8> }
impl Write for IntrOnce {
    fn write(&mut self, b: &[u8]) -> io::Result<usize> {
        if !self.done { self.done = true; return Err(io::Error::new(io::ErrorKind::Interrupted, "interrupted")) }
        let n = b.len().min(self.k); self.got.extend_from_slice(&b[..n]); Ok(n)
    }
    fn flush(&mut self) -> io::Result<()> { Ok(()) }
}
/// Accepts `left` octets in total, then fails for good.
struct FailAfter { left: usize, got: Vec<u8> }
impl Write for FailAfter {
    fn write(&mut self, b: &[u8]) -> io::Result<usize> {
        if self.left == 0 { return Err(io::Error::new(io::ErrorKind::Other, "sink broke")) }
        let n = b.len().min(self.left); self.left -= n; self.got.extend_from_slice(&b[..n]); Ok(n)
    }
    fn flush(&mut self) -> io::Result<()> { Ok(()) }
}
/// Returns at most `k` octets per call.
struct ChunkReader<'a> { data: &'a [u8], k: usize }
impl Read for ChunkReader<'_> {
    fn read(&mut self, b: &mut [u8]) -> io::Result<usize> {
        let n = b.len().min(self.k).min(self.data.len());
        b[..n].copy_from_slice(&self.data[..n]); self.data = &self.data[n..]; Ok(n)
    }
}

#[derive(Clone, Copy, Debug, PartialEq, Eq)]
enum Sink { Vec, Chunk(usize), FirstOne, SliceExact, SlicePlus(usize), SliceShort(usize), SliceEmpty, Intr(usize), Buf(usize, usize), FailAfter(usize) }

impl Sink {
    /// whether the sink can take a whole document
    fn healthy(self) -> bool { !matches!(self, Sink::SliceShort(_) | Sink::SliceEmpty | Sink::FailAfter(_)) }
    fn all() -> Vec<Sink> {
        let mut v = vec![Sink::Vec];
        for k in [1usize, 2, 7, 64, 4096] { v.push(Sink::Chunk(k)) }
        v.extend([Sink::FirstOne, Sink::SliceExact, Sink::SlicePlus(10), Sink::SliceShort(1), Sink::SliceShort(17), Sink::SliceEmpty, Sink::Intr(usize::MAX), Sink::Intr(7)]);
        for (cap, k) in [(8192usize, 1usize), (8192, 7), (8192, 4096), (16, 1), (1, 2), (65536, 64)] { v.push(Sink::Buf(cap, k)) }
        v.extend([Sink::FailAfter(0), Sink::FailAfter(10)]);
        v
    }
    /// Runs to_writer / to_writer_pretty into the sink; returns the result and what the sink received.
    fn run(self, f: &SlurmFile, pretty: bool, doc_len: usize) -> (Result<(), String>, Vec<u8>) {
        fn go(f: &SlurmFile, pretty: bool, w: impl Write) -> Result<(), String> {
            if pretty { f.to_writer_pretty(w) } else { f.to_writer(w) }.map_err(|e| format!("{:?}: {e}", e.kind()))
        }
        match self {
            Sink::Vec => { let mut v = Vec::new(); let r = go(f, pretty, &mut v); (r, v) }
            Sink::Chunk(k) => { let mut w = Chunk { k, got: Vec::new() }; let r = go(f, pretty, &mut w); (r, w.got) }
            Sink::FirstOne => { let mut w = FirstOne { first: true, got: Vec::new() }; let r = go(f, pretty, &mut w); (r, w.got) }
            Sink::Intr(k) => { let mut w = IntrOnce { done: false, k, got: Vec::new() }; let r = go(f, pretty, &mut w); (r, w.got) }
            Sink::FailAfter(n) => { let mut w = FailAfter { left: n, got: Vec::new() }; let r = go(f, pretty, &mut w); (r, w.got) }
            Sink::SliceExact | Sink::SlicePlus(_) | Sink::SliceShort(_) | Sink::SliceEmpty => {
                let size = match self { Sink::SliceExact => doc_len, Sink::SlicePlus(n) => doc_len + n, Sink::SliceShort(n) => doc_len.saturating_sub(n), _ => 0 };
                let mut buf = vec![0u8; size];
                let mut cur = io::Cursor::new(&mut buf[..]);
                let r = go(f, pretty, &mut cur);
                let n = cur.position() as usize;
                buf.truncate(n);
                (r, buf)
            }
            Sink::Buf(cap, k) => {
                let mut bw = io::BufWriter::with_capacity(cap, Chunk { k, got: Vec::new() });
                let r = go(f, pretty, &mut bw).and_then(|_| bw.flush().map_err(|e| format!("flush: {e}")));
                match bw.into_inner() { Ok(w) => (r, w.got), Err(e) => (Err(format!("into_inner: {}", e.error())), Vec::new()) }
            }
        }
    }
}

/// One (file, form, sink) case. Ok from the library obliges the sink to hold a
/// document that parses back (through slow readers too) to an equal file; an
/// error is only acceptable from a sink that cannot take the document.
fn check_sink(lf: &mut Lf, oc: &mut Oc, name: &dyn Fn() -> String, f: &SlurmFile, sink: Sink, pretty: bool) -> u64 {
    let form = if pretty { "to_writer_pretty" } else { "to_writer" };
    let wit = || format!("file={} form={form} sink={:?}", name(), sink);
    let r = guard(|| { let reference = if pretty { f.to_string_pretty() } else { f.to_string() }; let (res, got) = sink.run(f, pretty, reference.len()); (res, got, reference) });
    let r = match r { Ok((res, got, reference)) => Ok((res, got, reference)), Err(p) => Err(p) };
    let reference = match &r { Ok((_, _, re)) => re.clone(), Err(_) => String::new() };
    match r.map(|(res, got, _)| (res, got)) {
        Err(p) => lf.fail("C15.json.no_panic", wit, || p.clone()),
        Ok((Err(e), got)) => {
            if sink.healthy() { lf.fail("C15.json.writer", wit, || format!("{form} failed ({e}) on a sink that accepts everything it is given; {} octets arrived", got.len())) }
            else { bump(oc, "error-surfaced-from-failing-sink") }
        }
        Ok((Ok(()), got)) => {
            let mut ok = true;
            for k in [1usize, 7, 4096] {
                match guard(|| SlurmFile::from_reader(ChunkReader { data: &got, k }).map_err(|e| e.to_string())) {
                    Ok(Ok(g)) if g == *f => {}
                    other => {
                        ok = false;
                        lf.fail("C15.json.writer", wit, || format!("{form} returned Ok but the sink holds {} octets (to_string form has {}) which read back ({k} octets per read) as {}", got.len(), reference.len(),
                            match other { Ok(Ok(_)) => "a different file".to_string(), Ok(Err(e)) => format!("error: {e}"), Err(p) => p }));
                        break
                    }
                }
            }
            if ok { bump(oc, if !sink.healthy() { "ok-on-failing-sink-with-complete-document" } else if got == reference.as_bytes() { "complete-and-same-octets-as-to_string" } else { "complete-other-octets-than-to_string" }) }
        }
    }
    4
}

/// Prefixes with the longest and shortest text forms of each family and
/// length class: every group of 2a02:1234:5678:9abc:def0:1234:5678:9abc kept
/// as far as the length allows (43 characters at /113../128), one-, two- and
/// three-digit lengths, and the dotted-quad extremes.
fn long_text_prefixes() -> Vec<MPfx> {
    let a6: u128 = 0x2a02_1234_5678_9abc_def0_1234_5678_9abc;
    let mut v: Vec<MPfx> = [1u8, 9, 10, 16, 17, 64, 99, 100, 112, 113, 120, 127, 128].iter().map(|&l| MPfx::of_addr(false, a6, l)).collect();
    v.push(MPfx::v6(0xffff_ffff_ffff_ffff, 0xffff_ffff_ffff_ffff, 128));
    v.push(MPfx::v6(0x1000_1000_1000_1000, 0x1000_1000_1000_1000, 128));
    v.extend([MPfx::v4([255, 255, 255, 255], 32), MPfx::v4([255, 255, 255, 252], 30), MPfx::v4([100, 100, 100, 100], 32), MPfx::v4([128, 0, 0, 0], 1), MPfx::v4([255, 255, 255, 128], 25), MPfx::v4([1, 1, 1, 1], 32), MPfx::v4([0, 0, 0, 0], 9)]);
    v
}

fn leak(s: String) -> &'static str { Box::leak(s.into_boxed_str()) }

/// The house rule for quantities: 0..=40, the neighbourhoods of every power
/// of two from 64 up to `max`, and `max` itself with its neighbours below.
fn scale_counts(max: usize) -> Vec<usize> {
    let mut v: Vec<usize> = (0..=40.min(max)).collect();
    let mut p = 64usize;
    while p <= max + 1 { for k in [p - 1, p, p + 1] { if k <= max { v.push(k) } } p *= 2 }
    for k in [max.saturating_sub(1), max] { v.push(k) }
    v.sort(); v.dedup(); v
}

/// IPv6 prefixes whose text form is unusual: IPv4-mapped and IPv4-compatible
/// (printed with a dotted quad), NAT64, loopback, zero runs at either end and
/// in the middle, all-ones.
fn unusual_v6() -> Vec<MPfx> {
    vec![
        MPfx::v6(0, 0x0000_ffff_0000_0000, 96),          // ::ffff:0.0.0.0/96
        MPfx::v6(0, 0x0000_ffff_c000_0200, 120),         // ::ffff:192.0.2.0/120
        MPfx::v6(0, 0x0000_ffff_c000_0201, 128),         // ::ffff:192.0.2.1/128
        MPfx::v6(0, 0x0000_0000_c000_0200, 120),         // ::192.0.2.0/120 (IPv4-compatible)
        MPfx::v6(0x0064_ff9b_0000_0000, 0x0000_0000_c000_0200, 120), // 64:ff9b::192.0.2.0/120
        MPfx::v6(0, 1, 128),                             // ::1/128
        MPfx::v6(0x2001_0db8_0000_0000, 0x0001_0000_0000_0000, 80),  // 2001:db8::1:0:0:0/80 (zeros in the middle)
        MPfx::v6(0x2001_0000_0000_0001, 0, 64),          // 2001:0:0:1::/64
        MPfx::v6(0xffff_ffff_ffff_ffff, 0xffff_ffff_ffff_ff00, 120), // all ones /120
        MPfx::v6(0x8000_0000_0000_0000, 0, 1),           // 8000::/1
    ]
}

fn filters_text(pf: &[MPF], bf: &[MBF], af: Option<&[MAF]>) -> String {
    MFile { pf: pf.to_vec(), bf: bf.to_vec(), af: af.map(|x| x.to_vec()), ..Default::default() }.text().split(" prefixAssertions").next().unwrap().to_string()
}

/// all lists of length <= max over `items` (shortlex)
fn lists<T: Clone>(items: &[T], max: usize) -> Vec<Vec<T>> {
    let mut out: Vec<Vec<T>> = vec![vec![]];
    let mut layer: Vec<Vec<T>> = vec![vec![]];
    for _ in 0..max {
        let mut next = Vec::new();
        for l in &layer { for it in items { let mut n = l.clone(); n.push(it.clone()); next.push(n) } }
        out.extend(next.iter().cloned());
        layer = next;
    }
    out
}

//------------ deterministic failure collection ------------------------------

static COLLECTED: Mutex<Vec<(&'static str, String, String)>> = Mutex::new(Vec::new());

/// At most 16 reports per oracle per work unit; emitted sorted (shortest
/// witness first) so the output does not depend on thread timing.
struct Lf { n: BTreeMap<&'static str, u32>, got: Vec<(&'static str, String, String)> }
impl Lf {
    fn new() -> Self { Lf { n: BTreeMap::new(), got: Vec::new() } }
    fn fail(&mut self, oracle: &'static str, w: impl FnOnce() -> String, d: impl FnOnce() -> String) {
        let c = self.n.entry(oracle).or_insert(0);
        *c += 1;
        if *c <= 16 { self.got.push((oracle, w(), d())) }
    }
}
impl Drop for Lf {
    fn drop(&mut self) { if !self.got.is_empty() { COLLECTED.lock().unwrap().append(&mut self.got) } }
}
fn emit_failures(ctx: &Ctx) {
    let mut v = std::mem::take(&mut *COLLECTED.lock().unwrap());
    v.sort_by(|a, b| a.0.cmp(b.0).then(a.1.len().cmp(&b.1.len())).then_with(|| a.1.cmp(&b.1)));
    v.dedup();
    for (o, w, d) in v { ctx.fail(o, w, d) }
}

/// Runs one work unit; a panic that escapes the per-case guards (a library
/// call made while preparing a case) becomes a violation instead of killing
/// the explorer.
fn unit<R>(what: impl FnOnce() -> String, f: impl FnOnce() -> R) -> Option<R> {
    match guard(f) {
        Ok(r) => Some(r),
        Err(p) => { COLLECTED.lock().unwrap().push(("C15.no_panic", format!("while preparing: {}", what()), p)); None }
    }
}

/// Runs the body of a whole space; if a panic still gets out, the space is
/// closed as incomplete and the panic reported as a violation (exit 1).
static ABORTED: Mutex<Vec<std::sync::Arc<rpki_verif::Space>>> = Mutex::new(Vec::new());

fn space_body(ctx: &Ctx, sp: &std::sync::Arc<rpki_verif::Space>, f: impl FnOnce()) {
    if let Err(p) = guard(f) {
        sp.eval(); sp.outcome("aborted-by-panic"); sp.outcome("aborted");
        ABORTED.lock().unwrap().push(sp.clone());
        ctx.fail("C15.no_panic", format!("space {}", sp.name), p);
    }
}

fn shown(f: impl FnOnce() -> String) -> String { guard(f).unwrap_or_else(|p| format!("<{p}>")) }

type Oc = BTreeMap<&'static str, u64>;
fn bump(oc: &mut Oc, k: &'static str) { *oc.entry(k).or_insert(0) += 1 }

const TRICKY: &str = "q\" b\\ /s nl\n tab\t ctl\u{1} del\u{7f} \u{e9} \u{65e5}\u{672c} \u{1F600} {\"x\":[1]} </script>";
const K1: [u8; 20] = [0x3c, 0x8f, 0x1a, 0x22, 0x05, 0x11, 0x96, 0xfb, 0x00, 0xff, 0x7e, 0x80, 0x01, 0x02, 0x03, 0x04, 0xaa, 0xbb, 0xcc, 0xdd];
const K2: [u8; 20] = [0x3c, 0x8f, 0x1a, 0x22, 0x05, 0x11, 0x96, 0xfb, 0x00, 0xff, 0x7e, 0x80, 0x01, 0x02, 0x03, 0x04, 0xaa, 0xbb, 0xcc, 0xde]; // last bit differs
const K0: [u8; 20] = [0; 20];
const KF: [u8; 20] = [0xff; 20];

/// The round trips the property names, on one file. Returns the number of
/// executions.
fn clip(s: &str) -> String { if s.len() <= 700 { s.to_string() } else { let mut e = 700; while !s.is_char_boundary(e) { e -= 1 } format!("{}... ({} octets)", &s[..e], s.len()) } }

fn check_file(lf: &mut Lf, oc: &mut Oc, m: &MFile) -> u64 { check_file_named(lf, oc, m, &|| m.text()) }

/// Same, with a short name as the witness (for files too large to print).
fn check_file_named(lf: &mut Lf, oc: &mut Oc, m: &MFile, name: &dyn Fn() -> String) -> u64 {
    let wit = || clip(&name());
    let r = guard(|| {
        let f = m.lib();
        let compact = f.to_string();
        let pretty = f.to_string_pretty();
        let mut w1 = Vec::new(); let e1 = f.to_writer(&mut w1).map_err(|e| e.to_string());
        let mut w2 = Vec::new(); let e2 = f.to_writer_pretty(&mut w2).map_err(|e| e.to_string());
        let back1 = SlurmFile::from_str(&compact).map_err(|e| e.to_string());
        let back2 = SlurmFile::from_str(&pretty).map_err(|e| e.to_string());
        let back3 = e1.and_then(|_| SlurmFile::from_reader(&w1[..]).map_err(|e| e.to_string()));
        let back4 = e2.and_then(|_| SlurmFile::from_reader(&w2[..]).map_err(|e| e.to_string()));
        let pays: Vec<MPay> = f.assertions.iter_payload().map(|p| fields_of(&p)).collect();
        let acc: Option<String> = f.assertions.iter_payload().chain(back1.iter().flat_map(|b| b.assertions.iter_payload())).find_map(|p| accessor_disagreement(&p));
        let pays_back: Option<Vec<MPay>> = back1.as_ref().ok().map(|b| b.assertions.iter_payload().map(|p| fields_of(&p)).collect());
        let same_bytes = w1 == compact.as_bytes() && w2 == pretty.as_bytes();
        // the serde_json::Value route (a map keyed in sorted order): to_value -> from_value, and Value -> text -> from_str
        let value_route: Result<(), String> = serde_json::to_value(&f).map_err(|e| format!("to_value: {e}")).and_then(|v| {
            let txt = v.to_string();
            match serde_json::from_value::<SlurmFile>(v) { Ok(g) if g == f => Ok(()), Ok(_) => Err("to_value -> from_value gives a different file".to_string()), Err(e) => Err(format!("from_value rejects the value: {e}")) }?;
            match SlurmFile::from_str(&txt) { Ok(g) if g == f => Ok(()), Ok(_) => Err(format!("Value -> to_string -> from_str gives a different file; text={}", clip(&txt))), Err(e) => Err(format!("Value -> to_string -> from_str rejected: {e}; text={}", clip(&txt))) }
        });
        (f, compact, [back1, back2, back3, back4], pays, pays_back, same_bytes, acc, value_route)
    });
    match r {
        Err(p) => lf.fail("C15.json.no_panic", wit, || p.clone()),
        Ok((f, compact, backs, pays, pays_back, _same, acc, value_route)) => {
            if let Err(d) = value_route { lf.fail("C15.json.value_route", wit, || d.clone()) }
            if let Some(d) = acc { lf.fail("C15.assertions.payload.accessors", wit, || d.clone()) }
            for (i, b) in backs.iter().enumerate() {
                let form = ["to_string/from_str", "to_string_pretty/from_str", "to_writer/from_reader", "to_writer_pretty/from_reader"][i];
                match b {
                    Ok(g) if *g == f => bump(oc, "round-trip-equal"),
                    Ok(_) => lf.fail("C15.json.roundtrip", wit, || format!("{form}: parsed file differs from the original; json={}", clip(&compact))),
                    Err(e) => lf.fail("C15.json.roundtrip", wit, || format!("{form}: own output rejected: {e}; json={}", clip(&compact))),
                }
            }
            let want = m.payloads();
            if pays != want { lf.fail("C15.assertions.payload", wit, || clip(&format!("iter_payload gave {:?} expected {:?}", pays.iter().map(|p| p.text()).collect::<Vec<_>>(), want.iter().map(|p| p.text()).collect::<Vec<_>>()))) }
            if let Some(pb) = pays_back { if pb != want { lf.fail("C15.assertions.payload.after_json", wit, || clip(&format!("iter_payload of the re-parsed file gave {:?}", pb.iter().map(|p| p.text()).collect::<Vec<_>>()))) } }
            if want.is_empty() { bump(oc, "no-assertions") } else { bump(oc, "assertions-yielded") }
        }
    }
    6
}

//------------ object-level history: operation sequences on one file ---------

const AS_A: u32 = 64496;
const AS_B: u32 = 64497;
const AS_C: u32 = 64500;
/// Empty files whose text states the version number.
const SHELL: [&str; 2] = [
    r#"{"slurmVersion":1,"validationOutputFilters":{"prefixFilters":[],"bgpsecFilters":[]},"locallyAddedAssertions":{"prefixAssertions":[],"bgpsecAssertions":[]}}"#,
    r#"{"slurmVersion":2,"validationOutputFilters":{"prefixFilters":[],"bgpsecFilters":[]},"locallyAddedAssertions":{"prefixAssertions":[],"bgpsecAssertions":[]}}"#,
];

/// The reference model of one file: plain Vecs and the version number.
#[derive(Clone, Debug, PartialEq, Eq, Hash)]
struct MState { f: MFile, ver: u8 }
/// The file the operations work on and a second file (the clone / the original / the partner of swaps).
#[derive(Clone, Debug, PartialEq, Eq, Hash)]
struct MWorld { cur: MState, other: MState }
struct World { cur: SlurmFile, other: SlurmFile }

fn hash_of<T: std::hash::Hash>(t: &T) -> u64 { use std::hash::Hasher; let mut h = std::collections::hash_map::DefaultHasher::new(); t.hash(&mut h); h.finish() }
fn shell(ver: u8) -> SlurmFile { SlurmFile::from_str(SHELL[(ver.clamp(1, 2) - 1) as usize]).expect("an empty file of version 1 / 2 parses") }
/// A file that has only ever been in the given state: an empty file of that
/// version whose two public parts are assigned from struct literals before anything is asked of it.
fn twin(m: &MState) -> SlurmFile { let mut t = shell(m.ver); t.filters = m.f.lib_filters(); t.assertions = m.f.lib_assertions(); t }
/// The version number a file writes (observed for the constructors, whose choice the property does not fix).
fn written_version(f: &SlurmFile) -> Option<u8> { let t = f.to_string(); let i = t.find("\"slurmVersion\":")? + 15; t[i..].chars().next()?.to_digit(10).map(|d| d as u8) }

/// How a start file comes into being.
#[derive(Clone, Copy, Debug)]
enum Form { New, Text(u8), DefaultAssign }

/// Operations on a Vec, applied alike to the library's public field and to the model's Vec.
#[derive(Clone, Debug)]
enum VOp<T> { Push(T), Insert0(T), Replace0(T), Assign(Vec<T>), Pop, Remove0, SwapRemove0, Clear, Truncate1, Reverse, Drain, Take }
impl<T: Clone> VOp<T> {
    fn map<U>(&self, f: impl Fn(&T) -> U) -> VOp<U> {
        match self {
            VOp::Push(x) => VOp::Push(f(x)), VOp::Insert0(x) => VOp::Insert0(f(x)), VOp::Replace0(x) => VOp::Replace0(f(x)), VOp::Assign(v) => VOp::Assign(v.iter().map(f).collect()),
            VOp::Pop => VOp::Pop, VOp::Remove0 => VOp::Remove0, VOp::SwapRemove0 => VOp::SwapRemove0, VOp::Clear => VOp::Clear, VOp::Truncate1 => VOp::Truncate1, VOp::Reverse => VOp::Reverse, VOp::Drain => VOp::Drain, VOp::Take => VOp::Take,
        }
    }
    fn apply(&self, v: &mut Vec<T>) {
        match self {
            VOp::Push(x) => v.push(x.clone()), VOp::Insert0(x) => v.insert(0, x.clone()), VOp::Replace0(x) => if let Some(s) = v.first_mut() { *s = x.clone() },
            VOp::Assign(n) => *v = n.clone(), VOp::Pop => { v.pop(); } VOp::Remove0 => if !v.is_empty() { v.remove(0); }, VOp::SwapRemove0 => if !v.is_empty() { v.swap_remove(0); },
            VOp::Clear => v.clear(), VOp::Truncate1 => v.truncate(1), VOp::Reverse => v.reverse(), VOp::Drain => { v.drain(..); } VOp::Take => { let _ = std::mem::take(v); }
        }
    }
    fn grows(&self) -> bool { matches!(self, VOp::Push(_) | VOp::Insert0(_) | VOp::Assign(_)) }
    fn text(&self, field: &str, f: impl Fn(&T) -> String) -> String {
        match self {
            VOp::Push(x) => format!("{field}.push({})", f(x)), VOp::Insert0(x) => format!("{field}.insert(0, {})", f(x)), VOp::Replace0(x) => format!("{field}[0] = {}", f(x)),
            VOp::Assign(v) => format!("{field} = vec![{}]", v.iter().map(f).collect::<Vec<_>>().join(", ")), VOp::Pop => format!("{field}.pop()"), VOp::Remove0 => format!("{field}.remove(0)"), VOp::SwapRemove0 => format!("{field}.swap_remove(0)"),
            VOp::Clear => format!("{field}.clear()"), VOp::Truncate1 => format!("{field}.truncate(1)"), VOp::Reverse => format!("{field}.reverse()"), VOp::Drain => format!("{field}.drain(..)"), VOp::Take => format!("mem::take(&mut {field})"),
        }
    }
}
/// Operations on an optional section.
#[derive(Clone, Debug)]
enum OOp<T> { SetNone, SomeEmpty, TakeOpt, V(VOp<T>) }
impl<T: Clone> OOp<T> {
    fn map<U>(&self, f: impl Fn(&T) -> U) -> OOp<U> { match self { OOp::SetNone => OOp::SetNone, OOp::SomeEmpty => OOp::SomeEmpty, OOp::TakeOpt => OOp::TakeOpt, OOp::V(o) => OOp::V(o.map(f)) } }
    fn apply(&self, o: &mut Option<Vec<T>>) {
        match self {
            OOp::SetNone => *o = None, OOp::SomeEmpty => *o = Some(Vec::new()), OOp::TakeOpt => { let _ = o.take(); }
            OOp::V(op) => if op.grows() { op.apply(o.get_or_insert_with(Vec::new)) } else if let Some(v) = o { op.apply(v) },
        }
    }
    fn text(&self, field: &str, f: impl Fn(&T) -> String) -> String {
        match self { OOp::SetNone => format!("{field} = None"), OOp::SomeEmpty => format!("{field} = Some(vec![])"), OOp::TakeOpt => format!("{field}.take()"),
            OOp::V(op) => op.text(&format!("{field}{}", if op.grows() { ".get_or_insert_with(Vec::new)" } else { ".as_mut()?" }), f) }
    }
}

#[derive(Clone, Copy, Debug)]
enum Sel { First, Last }
fn pick<T>(v: &mut [T], s: Sel) -> Option<&mut T> { match s { Sel::First => v.first_mut(), Sel::Last => v.last_mut() } }

/// One field of one entry changed in place.
#[derive(Clone, Debug)]
enum Edit {
    PfAsn(Option<u32>), PfPrefix(Option<MPfx>), PfComment(Cm), BfSki(Option<[u8; 20]>), BfAsn(Option<u32>), AfCustomer(Option<u32>),
    PaAsn(u32), PaPrefix(MPfx, Option<u8>), PaComment(Cm), BaAsn(u32), BaSki([u8; 20]), BaInfo(Vec<u8>), AaCustomer(u32), AaProviders(Vec<u32>),
}
impl Edit {
    fn lib(&self, s: Sel, f: &mut SlurmFile) {
        let asn = |a: &Option<u32>| a.map(Asn::from_u32);
        match self {
            Edit::PfAsn(a) => if let Some(x) = pick(&mut f.filters.prefix, s) { x.asn = asn(a) },
            Edit::PfPrefix(p) => if let Some(x) = pick(&mut f.filters.prefix, s) { x.prefix = p.map(|p| p.lib()) },
            Edit::PfComment(c) => if let Some(x) = pick(&mut f.filters.prefix, s) { x.comment = c.map(String::from) },
            Edit::BfSki(k) => if let Some(x) = pick(&mut f.filters.bgpsec, s) { x.ski = k.map(KeyIdentifier::from) },
            Edit::BfAsn(a) => if let Some(x) = pick(&mut f.filters.bgpsec, s) { x.asn = asn(a) },
            Edit::AfCustomer(a) => if let Some(x) = f.filters.aspa.as_mut().and_then(|v| pick(v, s)) { x.customer_asid = asn(a) },
            Edit::PaAsn(a) => if let Some(x) = pick(&mut f.assertions.prefix, s) { x.asn = Asn::from_u32(*a) },
            Edit::PaPrefix(p, ml) => if let Some(x) = pick(&mut f.assertions.prefix, s) { x.prefix = MaxLenPrefix::new(p.lib(), *ml).expect("max-len") },
            Edit::PaComment(c) => if let Some(x) = pick(&mut f.assertions.prefix, s) { x.comment = c.map(String::from) },
            Edit::BaAsn(a) => if let Some(x) = pick(&mut f.assertions.bgpsec, s) { x.asn = Asn::from_u32(*a) },
            Edit::BaSki(k) => if let Some(x) = pick(&mut f.assertions.bgpsec, s) { x.ski = KeyIdentifier::from(*k) },
            Edit::BaInfo(i) => if let Some(x) = pick(&mut f.assertions.bgpsec, s) { x.router_public_key = Base64KeyInfo::try_from(i.clone()).expect("key info") },
            Edit::AaCustomer(a) => if let Some(x) = f.assertions.aspa.as_mut().and_then(|v| pick(v, s)) { x.customer_asn = Asn::from_u32(*a) },
            Edit::AaProviders(p) => if let Some(x) = f.assertions.aspa.as_mut().and_then(|v| pick(v, s)) { x.provider_asns = ProviderAsns::try_from_iter(p.iter().map(|a| Asn::from_u32(*a))).expect("providers") },
        }
    }
    fn model(&self, s: Sel, f: &mut MFile) {
        match self {
            Edit::PfAsn(a) => if let Some(x) = pick(&mut f.pf, s) { x.asn = *a },
            Edit::PfPrefix(p) => if let Some(x) = pick(&mut f.pf, s) { x.prefix = *p },
            Edit::PfComment(c) => if let Some(x) = pick(&mut f.pf, s) { x.comment = *c },
            Edit::BfSki(k) => if let Some(x) = pick(&mut f.bf, s) { x.ski = *k },
            Edit::BfAsn(a) => if let Some(x) = pick(&mut f.bf, s) { x.asn = *a },
            Edit::AfCustomer(a) => if let Some(x) = f.af.as_mut().and_then(|v| pick(v, s)) { x.customer = *a },
            Edit::PaAsn(a) => if let Some(x) = pick(&mut f.pa, s) { x.asn = *a },
            Edit::PaPrefix(p, ml) => if let Some(x) = pick(&mut f.pa, s) { x.p = *p; x.maxlen = *ml },
            Edit::PaComment(c) => if let Some(x) = pick(&mut f.pa, s) { x.comment = *c },
            Edit::BaAsn(a) => if let Some(x) = pick(&mut f.ba, s) { x.asn = *a },
            Edit::BaSki(k) => if let Some(x) = pick(&mut f.ba, s) { x.ski = *k },
            Edit::BaInfo(i) => if let Some(x) = pick(&mut f.ba, s) { x.info = i.clone() },
            Edit::AaCustomer(a) => if let Some(x) = f.aa.as_mut().and_then(|v| pick(v, s)) { x.customer = *a },
            Edit::AaProviders(p) => if let Some(x) = f.aa.as_mut().and_then(|v| pick(v, s)) { x.providers = p.clone() },
        }
    }
    fn text(&self, s: Sel) -> String {
        let at = |field: &str| format!("{field}.{}", match s { Sel::First => "first_mut()?", Sel::Last => "last_mut()?" });
        let oa = |a: &Option<u32>| a.map_or("None".to_string(), |a| format!("Some(AS{a})"));
        match self {
            Edit::PfAsn(a) => format!("{}.asn = {}", at("filters.prefix"), oa(a)), Edit::PfPrefix(p) => format!("{}.prefix = {}", at("filters.prefix"), p.map_or("None".into(), |p| format!("Some({})", p.text()))),
            Edit::PfComment(c) => format!("{}.comment = {c:?}", at("filters.prefix")), Edit::BfSki(k) => format!("{}.ski = {}", at("filters.bgpsec"), k.map_or("None".into(), |k| format!("Some({}..)", hex(&k[..2])))),
            Edit::BfAsn(a) => format!("{}.asn = {}", at("filters.bgpsec"), oa(a)), Edit::AfCustomer(a) => format!("{}.customer_asid = {}", at("filters.aspa.as_mut()?"), oa(a)),
            Edit::PaAsn(a) => format!("{}.asn = AS{a}", at("assertions.prefix")), Edit::PaPrefix(p, ml) => format!("{}.prefix = {}-{ml:?}", at("assertions.prefix"), p.text()), Edit::PaComment(c) => format!("{}.comment = {c:?}", at("assertions.prefix")),
            Edit::BaAsn(a) => format!("{}.asn = AS{a}", at("assertions.bgpsec")), Edit::BaSki(k) => format!("{}.ski = {}..", at("assertions.bgpsec"), hex(&k[..2])), Edit::BaInfo(i) => format!("{}.router_public_key = {} octets", at("assertions.bgpsec"), i.len()),
            Edit::AaCustomer(a) => format!("{}.customer_asn = AS{a}", at("assertions.aspa.as_mut()?")), Edit::AaProviders(p) => format!("{}.provider_asns = {p:?}", at("assertions.aspa.as_mut()?")),
        }
    }
}

#[derive(Clone, Copy, Debug, PartialEq, Eq)]
enum Route { File, Filters, First }

#[derive(Clone, Debug)]
enum Op {
    // calls that leave the content alone (and may build whatever the object keeps for later)
    Query(Route, usize), IterPayload, ToString, EqOther, HashFile,
    // the public fields
    Pf(VOp<MPF>), Bf(VOp<MBF>), Af(OOp<MAF>), Pa(VOp<MPA>), Ba(VOp<MBA>), Aa(OOp<MAA>), Edit(Sel, Edit),
    // two files, copies, parts moved about, the version number
    CloneKeep, CloneSwitch, CloneOther, Switch, Json(u8), SwapFilters, SwapAssertions, SwapPart(u8), TakeFilters, TakeAssertions, CopyFiltersFromOther, RecloneFilters, Rehouse(u8), RehouseNew, RehouseDefault,
}

/// Version numbers the constructors choose (observed on fresh values; the property does not fix them).
struct Vers { new: [u8; 2], default: u8 }

impl Op {
    /// Runs the operation on the library's objects; a query returns its answer.
    fn lib(&self, w: &mut World, items: &[(MPay, Payload)]) -> Option<bool> {
        use std::mem::{replace, swap, take};
        match self {
            Op::Query(Route::File, i) => return Some(w.cur.drop_payload(&items[*i].1)),
            Op::Query(Route::Filters, i) => return Some(w.cur.filters.drop_payload(&items[*i].1)),
            Op::Query(Route::First, i) => return match &items[*i].1 {
                p @ Payload::Origin(_) => w.cur.filters.prefix.first().map(|f| f.drop_payload(p)),
                p @ Payload::RouterKey(_) => w.cur.filters.bgpsec.first().map(|f| f.drop_payload(p)),
                p @ Payload::Aspa(_) => w.cur.filters.aspa.as_ref().and_then(|v| v.first()).map(|f| f.drop_payload(p)),
            },
            Op::IterPayload => { let _ = w.cur.assertions.iter_payload().count(); }
            Op::ToString => { let _ = w.cur.to_string(); }
            Op::EqOther => { let _ = w.cur == w.other; }
            Op::HashFile => { let _ = hash_of(&w.cur); }
            Op::Pf(o) => o.map(|x| x.lib()).apply(&mut w.cur.filters.prefix),
            Op::Bf(o) => o.map(|x| x.lib()).apply(&mut w.cur.filters.bgpsec),
            Op::Af(o) => o.map(|x| x.lib()).apply(&mut w.cur.filters.aspa),
            Op::Pa(o) => o.map(|x| x.lib()).apply(&mut w.cur.assertions.prefix),
            Op::Ba(o) => o.map(|x| x.lib()).apply(&mut w.cur.assertions.bgpsec),
            Op::Aa(o) => o.map(|x| x.lib()).apply(&mut w.cur.assertions.aspa),
            Op::Edit(s, e) => e.lib(*s, &mut w.cur),
            Op::CloneKeep => w.other = w.cur.clone(),
            Op::CloneSwitch => { let c = w.cur.clone(); w.other = replace(&mut w.cur, c) }
            Op::CloneOther => w.cur = w.other.clone(),
            Op::Switch => swap(&mut w.cur, &mut w.other),
            Op::Json(0) => w.cur = SlurmFile::from_str(&w.cur.to_string()).expect("from_str of the file's own to_string"),
            Op::Json(1) => { let mut b = Vec::new(); w.cur.to_writer_pretty(&mut b).expect("to_writer_pretty into a Vec"); w.cur = SlurmFile::from_reader(&b[..]).expect("from_reader of the file's own to_writer_pretty") }
            Op::Json(_) => w.cur = serde_json::from_value(serde_json::to_value(&w.cur).expect("to_value")).expect("from_value of the file's own to_value"),
            Op::SwapFilters => swap(&mut w.cur.filters, &mut w.other.filters),
            Op::SwapAssertions => swap(&mut w.cur.assertions, &mut w.other.assertions),
            Op::SwapPart(0) => swap(&mut w.cur.filters.prefix, &mut w.other.filters.prefix),
            Op::SwapPart(1) => swap(&mut w.cur.filters.bgpsec, &mut w.other.filters.bgpsec),
            Op::SwapPart(2) => swap(&mut w.cur.filters.aspa, &mut w.other.filters.aspa),
            Op::SwapPart(3) => swap(&mut w.cur.assertions.prefix, &mut w.other.assertions.prefix),
            Op::SwapPart(4) => swap(&mut w.cur.assertions.bgpsec, &mut w.other.assertions.bgpsec),
            Op::SwapPart(_) => swap(&mut w.cur.assertions.aspa, &mut w.other.assertions.aspa),
            Op::TakeFilters => { let _ = take(&mut w.cur.filters); }
            Op::TakeAssertions => { let _ = take(&mut w.cur.assertions); }
            Op::CopyFiltersFromOther => w.cur.filters = w.other.filters.clone(),
            Op::RecloneFilters => { let c = w.cur.filters.clone(); w.cur.filters = c }
            Op::Rehouse(v) => { let mut s = shell(*v); swap(&mut s.filters, &mut w.cur.filters); swap(&mut s.assertions, &mut w.cur.assertions); w.cur = s }
            Op::RehouseNew => w.cur = SlurmFile::new(take(&mut w.cur.filters), take(&mut w.cur.assertions)),
            Op::RehouseDefault => { let mut s = SlurmFile::default(); s.filters = take(&mut w.cur.filters); s.assertions = take(&mut w.cur.assertions); w.cur = s }
        }
        None
    }
    /// The same operation on the model.
    fn model(&self, m: &mut MWorld, vers: &Vers) {
        use std::mem::swap;
        match self {
            Op::Query(..) | Op::IterPayload | Op::ToString | Op::EqOther | Op::HashFile | Op::Json(_) | Op::RecloneFilters => {}
            Op::Pf(o) => o.apply(&mut m.cur.f.pf), Op::Bf(o) => o.apply(&mut m.cur.f.bf), Op::Af(o) => o.apply(&mut m.cur.f.af),
            Op::Pa(o) => o.apply(&mut m.cur.f.pa), Op::Ba(o) => o.apply(&mut m.cur.f.ba), Op::Aa(o) => o.apply(&mut m.cur.f.aa),
            Op::Edit(s, e) => e.model(*s, &mut m.cur.f),
            Op::CloneKeep | Op::CloneSwitch => m.other = m.cur.clone(),
            Op::CloneOther => m.cur = m.other.clone(),
            Op::Switch => swap(&mut m.cur, &mut m.other),
            Op::SwapFilters => { swap(&mut m.cur.f.pf, &mut m.other.f.pf); swap(&mut m.cur.f.bf, &mut m.other.f.bf); swap(&mut m.cur.f.af, &mut m.other.f.af) }
            Op::SwapAssertions => { swap(&mut m.cur.f.pa, &mut m.other.f.pa); swap(&mut m.cur.f.ba, &mut m.other.f.ba); swap(&mut m.cur.f.aa, &mut m.other.f.aa) }
            Op::SwapPart(0) => swap(&mut m.cur.f.pf, &mut m.other.f.pf), Op::SwapPart(1) => swap(&mut m.cur.f.bf, &mut m.other.f.bf), Op::SwapPart(2) => swap(&mut m.cur.f.af, &mut m.other.f.af),
            Op::SwapPart(3) => swap(&mut m.cur.f.pa, &mut m.other.f.pa), Op::SwapPart(4) => swap(&mut m.cur.f.ba, &mut m.other.f.ba), Op::SwapPart(_) => swap(&mut m.cur.f.aa, &mut m.other.f.aa),
            Op::TakeFilters => { m.cur.f.pf = Vec::new(); m.cur.f.bf = Vec::new(); m.cur.f.af = None }
            Op::TakeAssertions => { m.cur.f.pa = Vec::new(); m.cur.f.ba = Vec::new(); m.cur.f.aa = None }
            Op::CopyFiltersFromOther => { m.cur.f.pf = m.other.f.pf.clone(); m.cur.f.bf = m.other.f.bf.clone(); m.cur.f.af = m.other.f.af.clone() }
            Op::Rehouse(v) => m.cur.ver = *v,
            Op::RehouseNew => m.cur.ver = vers.new[(m.cur.f.af.is_some() || m.cur.f.aa.is_some()) as usize],
            Op::RehouseDefault => m.cur.ver = vers.default,
        }
    }
    /// What a query must answer in the given state (None: no such filter to ask).
    fn expected(&self, m: &MState, items: &[(MPay, Payload)]) -> Option<bool> {
        match self {
            Op::Query(Route::First, i) => match &items[*i].0 {
                MPay::Origin { p, asn, .. } => m.f.pf.first().map(|f| f.matches(*p, *asn)),
                MPay::Key { ski, asn, .. } => m.f.bf.first().map(|f| f.matches(ski, *asn)),
                MPay::Aspa { customer, .. } => m.f.af.as_ref().and_then(|v| v.first()).map(|f| f.matches(*customer)),
            },
            Op::Query(_, i) => Some(model_drop(&m.f.pf, &m.f.bf, m.f.af.as_deref(), &items[*i].0)),
            _ => None,
        }
    }
    /// Calls after which an object may hold something derived from its content.
    fn observes(&self) -> bool { matches!(self, Op::Query(..) | Op::IterPayload | Op::ToString | Op::EqOther | Op::HashFile | Op::CloneKeep | Op::CloneSwitch | Op::CloneOther | Op::Json(_) | Op::CopyFiltersFromOther | Op::RecloneFilters) }
    fn text(&self, items: &[(MPay, Payload)]) -> String {
        match self {
            Op::Query(Route::File, i) => format!("drop_payload({})", items[*i].0.text()), Op::Query(Route::Filters, i) => format!("filters.drop_payload({})", items[*i].0.text()),
            Op::Query(Route::First, i) => format!("filters.{}.first()?.drop_payload({})", match items[*i].0 { MPay::Origin { .. } => "prefix", MPay::Key { .. } => "bgpsec", MPay::Aspa { .. } => "aspa.as_ref()?" }, items[*i].0.text()),
            Op::IterPayload => "assertions.iter_payload().count()".into(), Op::ToString => "to_string()".into(), Op::EqOther => "== other".into(), Op::HashFile => "hash()".into(),
            Op::Pf(o) => o.text("filters.prefix", |x| x.text()), Op::Bf(o) => o.text("filters.bgpsec", |x| x.text()), Op::Af(o) => o.text("filters.aspa", |x| x.text()),
            Op::Pa(o) => o.text("assertions.prefix", |x| x.text()), Op::Ba(o) => o.text("assertions.bgpsec", |x| x.text()), Op::Aa(o) => o.text("assertions.aspa", |x| x.text()),
            Op::Edit(s, e) => e.text(*s),
            Op::CloneKeep => "other = clone() (go on with the original)".into(), Op::CloneSwitch => "clone() (go on with the clone; the original becomes other)".into(), Op::CloneOther => "file = other.clone()".into(), Op::Switch => "mem::swap(file, other)".into(),
            Op::Json(0) => "file = from_str(to_string())".into(), Op::Json(1) => "file = from_reader(to_writer_pretty())".into(), Op::Json(_) => "file = from_value(to_value())".into(),
            Op::SwapFilters => "mem::swap(filters, other.filters)".into(), Op::SwapAssertions => "mem::swap(assertions, other.assertions)".into(),
            Op::SwapPart(k) => { let n = ["filters.prefix", "filters.bgpsec", "filters.aspa", "assertions.prefix", "assertions.bgpsec", "assertions.aspa"][(*k as usize).min(5)]; format!("mem::swap({n}, other.{n})") }
            Op::TakeFilters => "mem::take(&mut filters)".into(), Op::TakeAssertions => "mem::take(&mut assertions)".into(), Op::CopyFiltersFromOther => "filters = other.filters.clone()".into(), Op::RecloneFilters => "filters = filters.clone()".into(),
            Op::Rehouse(v) => format!("filters and assertions moved into an empty file parsed with slurmVersion {v}"), Op::RehouseNew => "file = SlurmFile::new(take(filters), take(assertions))".into(), Op::RehouseDefault => "filters and assertions moved into SlurmFile::default()".into(),
        }
    }
}

/// Everything the object-history space is built from.
struct Hist { items: Vec<(MPay, Payload)>, starts: Vec<(&'static str, MFile, Form)>, start_texts: Vec<String>, other: MFile, other_text: String, vers: Vers, menu: Vec<(Op, bool)> }

impl Hist {
    fn new() -> Hist {
        let p24 = MPfx::v4([192, 0, 2, 0], 24); let p16 = MPfx::v4([192, 0, 0, 0], 16); let p6 = MPfx::v6(0x2001_0db8_0000_0000, 0, 32);
        let items: Vec<MPay> = vec![
            MPay::Origin { p: MPfx::v4([192, 0, 2, 128], 25), maxlen: None, asn: AS_A }, MPay::Origin { p: p24, maxlen: Some(26), asn: AS_B }, MPay::Origin { p: p6, maxlen: Some(48), asn: AS_A }, MPay::Origin { p: MPfx::v4([198, 51, 100, 0], 24), maxlen: None, asn: AS_C },
            MPay::Key { ski: K1, asn: AS_A, info: vec![0x30, 0x59] }, MPay::Key { ski: K2, asn: AS_B, info: vec![] }, MPay::Key { ski: K0, asn: AS_C, info: vec![1] },
            MPay::Aspa { customer: AS_A, providers: vec![AS_B] }, MPay::Aspa { customer: AS_B, providers: vec![AS_A, AS_C] },
        ];
        let pf = |prefix: Option<MPfx>, asn: Option<u32>| MPF { prefix, asn, comment: None };
        let (f_a, f_b, f_p, f_pa, f_e) = (pf(None, Some(AS_A)), pf(None, Some(AS_B)), pf(Some(p24), None), pf(Some(p24), Some(AS_A)), MPF { prefix: None, asn: None, comment: Some("no criteria") });
        let bf = |ski: Option<[u8; 20]>, asn: Option<u32>| MBF { ski, asn, comment: None };
        let (g_s, g_a, g_sa, g_e) = (bf(Some(K1), None), bf(None, Some(AS_A)), bf(Some(K1), Some(AS_A)), bf(None, None));
        let af = |customer: Option<u32>| MAF { customer, comment: None };
        let (h_a, h_b, h_e) = (af(Some(AS_A)), af(Some(AS_B)), af(None));
        let a1 = MPA { p: p24, maxlen: Some(26), asn: AS_A, comment: None }; let a2 = MPA { p: p6, maxlen: None, asn: AS_B, comment: Some("v6") };
        let b1 = MBA { asn: AS_A, ski: K1, info: vec![0x30, 0x59], comment: None }; let b2 = MBA { asn: AS_B, ski: K2, info: vec![], comment: None };
        let c1 = MAA { customer: AS_A, providers: vec![AS_B, AS_C], comment: None }; let c2 = MAA { customer: AS_B, providers: vec![], comment: None };
        let starts = vec![
            ("empty, version 1", MFile::default(), Form::Text(1)),
            ("empty ASPA sections", MFile { af: Some(vec![]), aa: Some(vec![]), ..Default::default() }, Form::New),
            ("one entry per section", MFile { pf: vec![f_a.clone()], bf: vec![g_s.clone()], af: Some(vec![h_a.clone()]), pa: vec![a1.clone()], ba: vec![b1.clone()], aa: Some(vec![c1.clone()]) }, Form::New),
            ("one AS-only prefix filter", MFile { pf: vec![f_a.clone()], ..Default::default() }, Form::New),
            ("one prefix-only prefix filter, version 2", MFile { pf: vec![f_p.clone()], ..Default::default() }, Form::Text(2)),
            ("prefix+AS and AS-only filters", MFile { pf: vec![f_pa.clone(), f_b.clone()], bf: vec![g_sa.clone()], ..Default::default() }, Form::DefaultAssign),
            ("two AS-only filters, version 1", MFile { pf: vec![f_a.clone(), f_b.clone()], bf: vec![g_a.clone(), g_s.clone()], pa: vec![a1.clone(), a2.clone()], ..Default::default() }, Form::Text(1)),
            ("version 1 with ASPA entries", MFile { pf: vec![f_e.clone()], af: Some(vec![h_a.clone(), h_b.clone()]), aa: Some(vec![c1.clone()]), ..Default::default() }, Form::Text(1)),
            ("filters without criteria", MFile { pf: vec![f_e.clone(), f_a.clone()], bf: vec![g_e.clone()], af: Some(vec![h_e.clone()]), ..Default::default() }, Form::New),
        ];
        let other = MFile { pf: vec![pf(Some(p16), Some(AS_B))], bf: vec![bf(None, Some(AS_B))], af: Some(vec![h_b.clone()]), pa: vec![a2.clone()], ba: vec![b2.clone()], aa: Some(vec![c2.clone()]) };
        // the operation menu; `true` marks the core menu used for the longest sequences
        let mut menu: Vec<(Op, bool)> = Vec::new();
        for i in 0..items.len() { menu.push((Op::Query(Route::File, i), [0, 1, 2, 4, 7].contains(&i))) }
        for i in [0usize, 4, 7] { menu.push((Op::Query(Route::Filters, i), true)); menu.push((Op::Query(Route::First, i), true)) }
        menu.extend([(Op::IterPayload, true), (Op::ToString, true), (Op::EqOther, false), (Op::HashFile, false)]);
        for (o, core) in [(VOp::Push(f_a.clone()), true), (VOp::Push(f_b.clone()), true), (VOp::Push(f_p.clone()), true), (VOp::Push(f_pa.clone()), false), (VOp::Push(f_e.clone()), false), (VOp::Insert0(f_p.clone()), false), (VOp::Replace0(f_b.clone()), true),
            (VOp::Assign(vec![f_a.clone()]), false), (VOp::Assign(vec![f_b.clone(), f_p.clone()]), false), (VOp::Pop, true), (VOp::Remove0, true), (VOp::SwapRemove0, false), (VOp::Clear, true), (VOp::Truncate1, false), (VOp::Reverse, false), (VOp::Drain, false), (VOp::Take, false)] { menu.push((Op::Pf(o), core)) }
        for (e, core) in [(Edit::PfAsn(Some(AS_B)), true), (Edit::PfAsn(None), true), (Edit::PfAsn(Some(AS_A)), false), (Edit::PfPrefix(Some(p24)), true), (Edit::PfPrefix(Some(p16)), false), (Edit::PfPrefix(None), true), (Edit::PfComment(Some("edited")), false)] { menu.push((Op::Edit(Sel::First, e), core)) }
        for e in [Edit::PfAsn(Some(AS_B)), Edit::PfPrefix(None)] { menu.push((Op::Edit(Sel::Last, e), false)) }
        for (o, core) in [(VOp::Push(g_s.clone()), true), (VOp::Push(g_a.clone()), true), (VOp::Push(g_sa.clone()), false), (VOp::Push(g_e.clone()), false), (VOp::Replace0(g_a.clone()), false), (VOp::Assign(vec![g_s.clone()]), false), (VOp::Pop, true), (VOp::Remove0, false), (VOp::Clear, true)] { menu.push((Op::Bf(o), core)) }
        for (e, core) in [(Edit::BfSki(Some(K2)), true), (Edit::BfSki(None), false), (Edit::BfAsn(Some(AS_B)), true), (Edit::BfAsn(None), false)] { menu.push((Op::Edit(Sel::First, e), core)) }
        for (o, core) in [(OOp::SetNone, true), (OOp::SomeEmpty, false), (OOp::TakeOpt, false), (OOp::V(VOp::Push(h_a.clone())), true), (OOp::V(VOp::Push(h_b.clone())), false), (OOp::V(VOp::Push(h_e.clone())), false), (OOp::V(VOp::Assign(vec![h_a.clone()])), false), (OOp::V(VOp::Pop), true), (OOp::V(VOp::Remove0), false), (OOp::V(VOp::Clear), false)] { menu.push((Op::Af(o), core)) }
        for (e, core) in [(Edit::AfCustomer(Some(AS_B)), true), (Edit::AfCustomer(None), false)] { menu.push((Op::Edit(Sel::First, e), core)) }
        for (o, core) in [(VOp::Push(a1.clone()), true), (VOp::Push(a2.clone()), false), (VOp::Pop, true), (VOp::Remove0, false), (VOp::Clear, false), (VOp::Assign(vec![a2.clone()]), false), (VOp::Replace0(a2.clone()), false)] { menu.push((Op::Pa(o), core)) }
        for (e, core) in [(Edit::PaAsn(AS_C), true), (Edit::PaPrefix(MPfx::v4([198, 51, 100, 0], 24), Some(24)), false), (Edit::PaComment(Some("edited")), false)] { menu.push((Op::Edit(Sel::First, e), core)) }
        for (o, core) in [(VOp::Push(b1.clone()), true), (VOp::Push(b2.clone()), false), (VOp::Pop, false), (VOp::Clear, false)] { menu.push((Op::Ba(o), core)) }
        for (e, core) in [(Edit::BaAsn(AS_C), false), (Edit::BaSki(K0), true), (Edit::BaInfo(vec![1, 2, 3]), false)] { menu.push((Op::Edit(Sel::First, e), core)) }
        for (o, core) in [(OOp::SetNone, true), (OOp::SomeEmpty, false), (OOp::V(VOp::Push(c1.clone())), true), (OOp::V(VOp::Push(c2.clone())), false), (OOp::V(VOp::Pop), false)] { menu.push((Op::Aa(o), core)) }
        for (e, core) in [(Edit::AaCustomer(AS_C), false), (Edit::AaProviders(vec![1]), true)] { menu.push((Op::Edit(Sel::First, e), core)) }
        menu.extend([(Op::CloneKeep, true), (Op::CloneSwitch, true), (Op::CloneOther, false), (Op::Switch, true), (Op::Json(0), true), (Op::Json(1), false), (Op::Json(2), false), (Op::SwapFilters, true), (Op::SwapAssertions, false)]);
        for k in 0..6u8 { menu.push((Op::SwapPart(k), k == 0)) }
        menu.extend([(Op::TakeFilters, true), (Op::TakeAssertions, false), (Op::CopyFiltersFromOther, false), (Op::RecloneFilters, false), (Op::Rehouse(1), true), (Op::Rehouse(2), true), (Op::RehouseNew, false), (Op::RehouseDefault, false)]);
        // the version numbers new() and default() choose, read from fresh values
        let seen = |f: &dyn Fn() -> SlurmFile, fallback: u8| guard(|| written_version(&f())).ok().flatten().filter(|v| (1..=2).contains(v)).unwrap_or(fallback);
        let vers = Vers {
            new: [seen(&|| SlurmFile::new(ValidationOutputFilters::new(Vec::new(), Vec::new()), LocallyAddedAssertions::new(Vec::new(), Vec::new())), 1),
                  seen(&|| SlurmFile::new(ValidationOutputFilters { prefix: vec![], bgpsec: vec![], aspa: Some(vec![]) }, LocallyAddedAssertions::new(Vec::new(), Vec::new())), 2)],
            default: seen(&|| SlurmFile::default(), 2),
        };
        let items = items.into_iter().map(|m| { let l = m.lib(); (m, l) }).collect();
        let start_texts = starts.iter().map(|(_, m, f)| match f { Form::Text(v) => m.json(*v, false), _ => String::new() }).collect();
        let other_text = other.json(2, false);
        Hist { items, starts, start_texts, other, other_text, vers, menu }
    }

    /// The start file (built the way its form says) next to the second file, and their models.
    fn fresh(&self, si: usize) -> (World, MWorld) {
        let (_, m, form) = &self.starts[si];
        let aspa = m.af.is_some() || m.aa.is_some();
        let (cur, ver) = match form {
            Form::New => (m.lib(), self.vers.new[aspa as usize]),
            Form::Text(v) => (SlurmFile::from_str(&self.start_texts[si]).expect("hand-written text of the start file parses"), *v),
            Form::DefaultAssign => { let mut f = SlurmFile::default(); f.filters = m.lib_filters(); f.assertions = m.lib_assertions(); (f, self.vers.default) }
        };
        let other = SlurmFile::from_str(&self.other_text).expect("hand-written text of the second file parses");
        (World { cur, other }, MWorld { cur: MState { f: m.clone(), ver }, other: MState { f: self.other.clone(), ver: 2 } })
    }

    fn witness(&self, si: usize, ops: &[usize]) -> String {
        format!("start={} ({:?}) ops=[{}]", self.starts[si].0, self.starts[si].2, ops.iter().map(|o| self.menu[*o].0.text(&self.items)).collect::<Vec<_>>().join("; "))
    }

    /// Every observer on one file against the reference model and a freshly built twin.
    fn sweep(&self, lf: &mut Lf, c: &mut HCnt, wit: &dyn Fn() -> String, which: &str, file: &SlurmFile, m: &MState) {
        let r = guard(|| {
            let tw = twin(m);
            let mut bad: Vec<(&'static str, String)> = Vec::new();
            let (mut kept, mut dropped) = (0u64, 0u64);
            let state = || filters_text(&m.f.pf, &m.f.bf, m.f.af.as_deref());
            for (mp, lp) in &self.items {
                let want = model_drop(&m.f.pf, &m.f.bf, m.f.af.as_deref(), mp);
                let a = file.drop_payload(lp); let b = file.filters.drop_payload(lp);
                let d = file.filters.prefix.iter().any(|f| f.drop_payload(lp)) || file.filters.bgpsec.iter().any(|f| f.drop_payload(lp)) || file.filters.aspa.iter().flatten().any(|f| f.drop_payload(lp));
                let t = tw.drop_payload(lp);
                if a != want || b != want || d != want || t != want {
                    bad.push(("C15.object.history.drop", format!("{which} file, item {}: SlurmFile::drop_payload={a} filters.drop_payload={b} some single filter's drop_payload={d}; a freshly built file in the same state answers {t}; the filters it holds now ({}) {}", mp.text(), state(), if want { "match: dropped" } else { "do not match: kept" })));
                }
                if want { dropped += 1 } else { kept += 1 }
            }
            let pays: Vec<MPay> = file.assertions.iter_payload().map(|p| fields_of(&p)).collect();
            let tpays: Vec<MPay> = tw.assertions.iter_payload().map(|p| fields_of(&p)).collect();
            if pays != m.f.payloads() || tpays != pays { bad.push(("C15.object.history.iter_payload", format!("{which} file: iter_payload yields {:?}; a freshly built file in the same state yields {:?}; the assertions it holds now are {:?}", pays.iter().map(|p| p.text()).collect::<Vec<_>>(), tpays.iter().map(|p| p.text()).collect::<Vec<_>>(), m.f.payloads().iter().map(|p| p.text()).collect::<Vec<_>>()))) }
            let eqs = [*file == tw, tw == *file, file.filters == tw.filters, file.assertions == tw.assertions, hash_of(file) == hash_of(&tw)];
            if eqs.contains(&false) { bad.push(("C15.object.history.eq", format!("{which} file against a freshly built file in the same state (version {}, {} {}): file == twin {}, twin == file {}, filters == {}, assertions == {}, same hash {}", m.ver, state(), m.f.text().split(" prefixAssertions").nth(1).map_or(String::new(), |s| format!("prefixAssertions{s}")), eqs[0], eqs[1], eqs[2], eqs[3], eqs[4]))) }
            let (s, ts) = (file.to_string(), tw.to_string());
            let back = SlurmFile::from_str(&s).map(|g| g == tw).map_err(|e| e.to_string());
            if s != ts || back != Ok(true) { bad.push(("C15.object.history.json", format!("{which} file: to_string gives {} (parsed back equal to the twin: {:?}); a freshly built file in the same state gives {}", clip(&s), back, clip(&ts)))) }
            (bad, kept, dropped)
        });
        c.ev += 4 * self.items.len() as u64 + 9;
        match r {
            Err(p) => lf.fail("C15.object.history.no_panic", wit, || format!("{which} file, observer sweep: {p}")),
            Ok((bad, kept, dropped)) => { c.kept += kept; c.dropped += dropped; for (o, d) in bad { lf.fail(o, wit, || d) } }
        }
    }

    /// One operation sequence from one start file, then the observer sweep on both files.
    fn run(&self, si: usize, ops: &[usize], lf: &mut Lf, c: &mut HCnt, states: &mut std::collections::HashSet<u64>, trans: &mut std::collections::HashSet<u64>) {
        let wit = || self.witness(si, ops);
        let (mut w, mut m) = match guard(|| self.fresh(si)) { Ok(x) => x, Err(p) => { c.ev += 1; lf.fail("C15.object.history.no_panic", wit, || format!("building the start file: {p}")); return } };
        let start_hash = hash_of(&m);
        states.insert(start_hash);
        let (mut observed, mut nontrivial, mut before) = (false, false, start_hash);
        for (k, &oi) in ops.iter().enumerate() {
            let op = &self.menu[oi].0;
            let want = op.expected(&m.cur, &self.items);
            c.ev += 1;
            match guard(|| op.lib(&mut w, &self.items)) {
                Err(p) => { lf.fail("C15.object.history.no_panic", wit, || format!("operation #{} ({}): {p}", k + 1, op.text(&self.items))); return }
                Ok(got) => if got != want {
                    lf.fail("C15.object.history.drop", wit, || format!("operation #{} answered {got:?}; the filters held at that point ({}) say {want:?}", k + 1, filters_text(&m.cur.f.pf, &m.cur.f.bf, m.cur.f.af.as_deref())));
                }
            }
            op.model(&mut m, &self.vers);
            let after = hash_of(&m);
            trans.insert(hash_of(&(before, oi)));
            states.insert(after);
            if observed && after != before { nontrivial = true }
            if op.observes() { observed = true }
            before = after;
        }
        self.sweep(lf, c, &wit, "current", &w.cur, &m.cur);
        self.sweep(lf, c, &wit, "other", &w.other, &m.other);
        c.seqs += 1; if nontrivial { c.nt += 1 }
        if before == start_hash { c.same += 1 } else { c.changed += 1 }
    }
}

#[derive(Default)]
struct HCnt { ev: u64, nt: u64, seqs: u64, kept: u64, dropped: u64, same: u64, changed: u64 }

fn object_history(ctx: &Ctx, thorough: bool) {
    let sp = ctx.space("object.history",
        "explicit-state exploration of operation sequences on ONE SlurmFile object next to a second file: operations = drop_payload for a menu of 9 items of all kinds through the file, through its filters part and through a single filter; iter_payload, to_string, ==, hash; every public field changed by push / insert / [0] = / pop / remove / swap_remove / clear / truncate / reverse / drain / mem::take / assignment of a whole Vec / one field of the first or last entry set in place (prefix, bgpsec and ASPA filters and assertions; the optional ASPA sections also set to None / Some(empty) / taken); clone (going on with the clone, going on with the original), the files swapped, to_string -> from_str, to_writer_pretty -> from_reader, to_value -> from_value (going on with the parsed copy), filters / assertions / each single list swapped with the second file's, taken, copied from it, re-cloned; both parts moved into an empty file parsed with slurmVersion 1 / 2, into SlurmFile::new and into default(). Start files: empty (version 1), empty with ASPA sections, one entry per section, AS-only / prefix-only / prefix+AS prefix filters, two AS-only filters, version 1 carrying ASPA entries, filters without criteria - built by SlurmFile::new, parsed from hand-written text, default() then assigned. Every sequence is run on freshly built files; every query inside a sequence and, after the last operation, every observer on BOTH files (drop_payload of every item through SlurmFile, ValidationOutputFilters and the single filters; iter_payload; ==, hash; to_string and its parse) must agree with the reference model (plain Vecs + the RFC 8416 predicate) and with a freshly built twin that has only ever been in the final state. quick: all sequences of <= 2 over the full menu and of 3 over the core menu; thorough: <= 3 over the full menu and (from five of the start files) 4 over the core menu. States = distinct (file, second file) model states incl. version numbers; non-trivial = sequences in which a query, clone or serialisation is followed by an operation that changes the model state");
    space_body(ctx, &sp.clone(), || {
        let h = Hist::new();
        let full: Vec<usize> = (0..h.menu.len()).collect();
        let core: Vec<usize> = (0..h.menu.len()).filter(|i| h.menu[*i].1).collect();
        // jobs: (start, menu, length, range of sequence codes)
        let (full_len, core_len) = if thorough { (3u32, 4u32) } else { (2, 3) };
        let mut jobs: Vec<(usize, &Vec<usize>, u32, u64, u64)> = Vec::new();
        const CHUNK: u64 = 2048;
        // thorough: the longest sequences start from five of the nine files
        let long_starts: Vec<usize> = if thorough { vec![0, 2, 3, 6, 7] } else { (0..h.starts.len()).collect() };
        for si in 0..h.starts.len() {
            for (menu, lens) in [(&full, (0..=full_len).collect::<Vec<u32>>()), (&core, vec![core_len])] {
                for len in lens {
                    if len == core_len && std::ptr::eq(menu, &core) && !long_starts.contains(&si) { continue }
                    let total = (menu.len() as u64).pow(len);
                    let mut lo = 0; while lo < total { jobs.push((si, menu, len, lo, (lo + CHUNK).min(total))); lo += CHUNK }
                }
            }
        }
        let all_states: Mutex<std::collections::HashSet<u64>> = Mutex::new(Default::default());
        let all_trans: Mutex<std::collections::HashSet<u64>> = Mutex::new(Default::default());
        jobs.par_iter().for_each(|&(si, menu, len, lo, hi)| {
            unit(|| format!("object history from start {} length {len} codes {lo}..{hi}", h.starts[si].0), || {
                let mut lf = Lf::new(); let mut c = HCnt::default();
                let (mut states, mut trans) = (std::collections::HashSet::new(), std::collections::HashSet::new());
                let n = menu.len() as u64;
                let mut ops = vec![0usize; len as usize];
                for code in lo..hi {
                    let mut x = code;
                    for slot in ops.iter_mut().rev() { *slot = menu[(x % n) as usize]; x /= n }
                    h.run(si, &ops, &mut lf, &mut c, &mut states, &mut trans);
                }
                sp.evals(c.ev); sp.nontrivial(c.nt); sp.traces(c.seqs);
                sp.outcomes_n("kept", c.kept); sp.outcomes_n("dropped", c.dropped); sp.outcomes_n("sequence-ends-in-start-state", c.same); sp.outcomes_n("sequence-ends-in-another-state", c.changed);
                all_states.lock().unwrap().extend(states); all_trans.lock().unwrap().extend(trans);
            });
        });
        sp.states(all_states.lock().unwrap().len() as u64); sp.transitions(all_trans.lock().unwrap().len() as u64);
        sp.set("operations", serde_json::json!(h.menu.iter().map(|(o, _)| o.text(&h.items)).collect::<Vec<_>>()));
        sp.set("core_operations", serde_json::json!(core.len()));
        sp.set("start_files", serde_json::json!(h.starts.iter().map(|(n, m, f)| format!("{n} ({f:?}): {}", m.text())).collect::<Vec<_>>()));
        sp.set("second_file", serde_json::json!(h.other.text()));
        sp.set("constructor_versions_observed", serde_json::json!({"new_without_aspa": h.vers.new[0], "new_with_aspa": h.vers.new[1], "default": h.vers.default}));
        sp.set("bound", serde_json::json!(format!("{} start files x all sequences of <= {full_len} over {} operations + {} start files x all sequences of {core_len} over {} core operations", h.starts.len(), full.len(), long_starts.len(), core.len())));
        sp.sample_str(|| h.witness(3, &[0, core.iter().copied().find(|i| matches!(h.menu[*i].0, Op::Pf(VOp::Pop))).unwrap_or(0)]));
        sp.sample_str(|| h.witness(2, &[core[0], core.iter().copied().find(|i| matches!(h.menu[*i].0, Op::CloneSwitch)).unwrap_or(0), core.iter().copied().find(|i| matches!(h.menu[*i].0, Op::Edit(Sel::First, Edit::PfAsn(None)))).unwrap_or(0)]));
    });
    sp.done(true, if thorough { "9 start files x all sequences of <= 3 over the full menu + 5 start files x all sequences of 4 over the core menu, observer sweep on both files after each" } else { "9 start files x (all sequences of <= 2 over the full menu + all sequences of 3 over the core menu), observer sweep on both files after each" });
}

//------------ json.total_size: the size of the whole document x every route ---

/// Counts the octets it is given.
struct CountSink(u64);
impl Write for CountSink {
    fn write(&mut self, b: &[u8]) -> io::Result<usize> { self.0 += b.len() as u64; Ok(b.len()) }
    fn flush(&mut self) -> io::Result<()> { Ok(()) }
}

/// Takes at most `k` octets per call and compares them, as they arrive, with
/// the document another route produced. Stores nothing.
struct CmpSink<'a> { want: &'a [u8], pos: usize, k: usize, diff_at: Option<usize> }
impl<'a> CmpSink<'a> {
    fn new(want: &'a [u8], k: usize) -> Self { CmpSink { want, pos: 0, k, diff_at: None } }
    fn same(&self) -> bool { self.diff_at.is_none() && self.pos == self.want.len() }
}
impl Write for CmpSink<'_> {
    fn write(&mut self, b: &[u8]) -> io::Result<usize> {
        let n = b.len().min(self.k);
        if self.diff_at.is_none() {
            let from = self.pos.min(self.want.len());
            let rest = &self.want[from..];
            if rest.len() < n || rest[..n] != b[..n] { self.diff_at = Some(from + rest.iter().zip(&b[..n]).take_while(|(x, y)| x == y).count()) }
        }
        self.pos += n;
        Ok(n)
    }
    fn flush(&mut self) -> io::Result<()> { Ok(()) }
}

/// Returns the document in chunks whose sizes run through `sizes` again and again.
struct VarChunkReader<'a> { data: &'a [u8], sizes: &'static [usize], i: usize }
impl Read for VarChunkReader<'_> {
    fn read(&mut self, b: &mut [u8]) -> io::Result<usize> {
        let n = b.len().min(self.sizes[self.i]).min(self.data.len());
        self.i += 1; if self.i == self.sizes.len() { self.i = 0 }
        b[..n].copy_from_slice(&self.data[..n]); self.data = &self.data[n..]; Ok(n)
    }
}
const TS_CHUNKS: &[usize] = &[1, 7, 4093, 65521, 3, 8192, 2, 100_003];

/// How a document gets large.
#[derive(Clone, Copy, Debug, PartialEq, Eq)]
enum Way {
    /// many small entries in one of the six sections
    Section(usize),
    /// ASPA assertions with ProviderAsns::MAX_COUNT providers each (the last one takes the remainder)
    AspaMax,
    /// one BGPsec assertion whose key makes up the document
    LongKey,
    /// one comment that makes up the document, held by an entry of section `holder`
    Comment { escapes: bool, holder: usize },
}
const TS_SECTIONS: [&str; 6] = ["prefixFilters", "bgpsecFilters", "aspaFilters", "prefixAssertions", "bgpsecAssertions", "aspaAssertions"];
/// 64 characters, one octet each in JSON.
const TS_ASCII: &str = "local exception 0123456789 ABCDEFGHIJKLMNOPQRSTUVWXYZ (ticket) .";
/// 16 characters that need escapes or several octets.
const TS_ESCAPES: &str = "q\" b\\ n\n t\t \u{1}\u{7f}\u{e9}\u{65e5}\u{1F600}/";

impl Way {
    fn text(self) -> String {
        match self {
            Way::Section(s) => format!("many small entries in {}", TS_SECTIONS[s]),
            Way::AspaMax => "ASPA assertions with 16380 providers each".to_string(),
            Way::LongKey => "one BGPsec assertion with a long key".to_string(),
            Way::Comment { escapes, holder } => format!("one long comment ({}) on an entry of {}", if escapes { "quotes, backslashes, control and non-ASCII characters" } else { "ASCII" }, TS_SECTIONS[holder]),
        }
    }
    fn unit(self) -> &'static str { match self { Way::Section(_) => "entries", Way::AspaMax => "providers in all", Way::LongKey => "key octets", Way::Comment { .. } => "comment blocks" } }
    /// the section that carries the entry whose ASCII comment pads the document to the exact size
    fn pad_section(self) -> usize { match self { Way::Section(s) => s, Way::AspaMax => 5, Way::LongKey => 4, Way::Comment { holder, .. } => holder } }
    fn probe(self) -> usize { match self { Way::Section(_) => 48, Way::AspaMax => 2 * ProviderAsns::MAX_COUNT, Way::LongKey => 768, Way::Comment { .. } => 64 } }
}

// entries whose JSON has a fixed width for a given i mod 12 (ten-digit AS numbers, three-digit octets, four-digit groups)
fn ts_asn(i: usize) -> Asn { Asn::from_u32(1_000_000_000 + (i % 3_000_000_000usize) as u32) }
fn ts_v4(i: usize) -> Prefix { Prefix::new(IpAddr::V4(Ipv4Addr::new(100 + (i % 100) as u8, 100 + (i / 100 % 100) as u8, 100 + (i / 10_000 % 100) as u8, 0)), 24).expect("a /24") }
fn ts_v6(i: usize) -> Prefix { Prefix::new(IpAddr::V6(Ipv6Addr::new(0x2001, 0xdb8, 0x1000 + (i % 0xe000) as u16, 0x1000 + (i / 0xe000 % 0xe000) as u16, 0, 0, 0, 0)), 64).expect("a /64") }
fn ts_ski(i: usize) -> KeyIdentifier { let mut k = K1; k[..8].copy_from_slice(&(i as u64).to_be_bytes()); KeyIdentifier::from(k) }
fn ts_pf(i: usize) -> PrefixFilter {
    match i % 4 {
        0 => PrefixFilter::new(Some(ts_v4(i)), None, None),
        1 => PrefixFilter::new(Some(ts_v6(i)), Some(ts_asn(i)), None),
        2 => PrefixFilter::new(None, Some(ts_asn(i)), Some("AS only".into())),
        _ => PrefixFilter::new(Some(ts_v4(i)), Some(ts_asn(i)), Some("q\" \\ \u{e9}".into())),
    }
}
fn ts_bf(i: usize) -> BgpsecFilter {
    match i % 3 { 0 => BgpsecFilter::new(Some(ts_ski(i)), None, None), 1 => BgpsecFilter::new(None, Some(ts_asn(i)), Some("c".into())), _ => BgpsecFilter::new(Some(ts_ski(i)), Some(ts_asn(i)), None) }
}
fn ts_af(i: usize) -> AspaFilter { AspaFilter::new(Some(ts_asn(i)), if i % 2 == 1 { Some("c".into()) } else { None }) }
fn ts_pa(i: usize) -> PrefixAssertion {
    match i % 4 {
        0 => PrefixAssertion::new(MaxLenPrefix::new(ts_v4(i), None).expect("max-len"), ts_asn(i), None),
        1 => PrefixAssertion::new(MaxLenPrefix::new(ts_v6(i), Some(96)).expect("max-len"), ts_asn(i), None),
        2 => PrefixAssertion::new(MaxLenPrefix::new(ts_v4(i), Some(28)).expect("max-len"), ts_asn(i), Some("c".into())),
        _ => PrefixAssertion::new(MaxLenPrefix::new(ts_v6(i), None).expect("max-len"), ts_asn(i), Some("\u{65e5}\u{672c}".into())),
    }
}
fn ts_ba(i: usize) -> BgpsecAssertion {
    BgpsecAssertion::new(ts_asn(i), ts_ski(i), Base64KeyInfo::try_from((0..91usize).map(|k| (k * 131 + i * 7) as u8).collect::<Vec<u8>>()).expect("key info"), if i % 2 == 1 { Some("c".into()) } else { None })
}
fn ts_provs(j: usize, n: usize) -> ProviderAsns {
    ProviderAsns::try_from_iter((0..n).map(|k| if k + 1 == n { Asn::from_u32(u32::MAX) } else { Asn::from_u32(1_000_000_000 + (j % 1000) as u32 + 3 * k as u32) })).expect("at most MAX_COUNT providers")
}
fn ts_aa(i: usize) -> AspaAssertion { AspaAssertion::new(ts_asn(i), ts_provs(i, i % 4), None) }

fn ts_push(f: &mut SlurmFile, sec: usize, i: usize) {
    match sec {
        0 => f.filters.prefix.push(ts_pf(i)), 1 => f.filters.bgpsec.push(ts_bf(i)), 2 => f.filters.aspa.get_or_insert_with(Vec::new).push(ts_af(i)),
        3 => f.assertions.prefix.push(ts_pa(i)), 4 => f.assertions.bgpsec.push(ts_ba(i)), _ => f.assertions.aspa.get_or_insert_with(Vec::new).push(ts_aa(i)),
    }
}
fn ts_last_comment(f: &mut SlurmFile, sec: usize) -> &mut Option<String> {
    match sec {
        0 => &mut f.filters.prefix.last_mut().expect("entry").comment, 1 => &mut f.filters.bgpsec.last_mut().expect("entry").comment,
        2 => &mut f.filters.aspa.as_mut().and_then(|v| v.last_mut()).expect("entry").comment, 3 => &mut f.assertions.prefix.last_mut().expect("entry").comment,
        4 => &mut f.assertions.bgpsec.last_mut().expect("entry").comment, _ => &mut f.assertions.aspa.as_mut().and_then(|v| v.last_mut()).expect("entry").comment,
    }
}

/// The file of a way with `n` units of bulk: one entry in every section, the
/// bulk, and a last entry in the way's section whose comment is "" (the pad).
fn ts_file(way: Way, n: usize) -> SlurmFile {
    let mut f = SlurmFile::new(ValidationOutputFilters { prefix: Vec::new(), bgpsec: Vec::new(), aspa: Some(Vec::new()) }, LocallyAddedAssertions { prefix: Vec::new(), bgpsec: Vec::new(), aspa: Some(Vec::new()) });
    for sec in 0..6 { ts_push(&mut f, sec, 12 + sec) }
    match way {
        Way::Section(s) => {
            match s { 0 => f.filters.prefix.reserve(n + 1), 1 => f.filters.bgpsec.reserve(n + 1), 3 => f.assertions.prefix.reserve(n + 1), 4 => f.assertions.bgpsec.reserve(n + 1), _ => {} }
            for i in 0..n { ts_push(&mut f, s, 24 + i) }
        }
        Way::AspaMax => {
            let v = f.assertions.aspa.get_or_insert_with(Vec::new);
            let (mut left, mut j) = (n, 0usize);
            while left > 0 { let k = left.min(ProviderAsns::MAX_COUNT); v.push(AspaAssertion::new(ts_asn(100 + j), ts_provs(j, k), None)); left -= k; j += 1 }
        }
        Way::LongKey => f.assertions.bgpsec.push(BgpsecAssertion::new(ts_asn(1), ts_ski(1), Base64KeyInfo::try_from((0..n).map(|k| (k * 131 + 7) as u8).collect::<Vec<u8>>()).expect("key info"), None)),
        Way::Comment { escapes, holder } => { ts_push(&mut f, holder, 36); *ts_last_comment(&mut f, holder) = Some(if escapes { TS_ESCAPES } else { TS_ASCII }.repeat(n)) }
    }
    let sec = way.pad_section();
    ts_push(&mut f, sec, 48);
    *ts_last_comment(&mut f, sec) = Some(String::new());
    f
}

fn ts_count(f: &SlurmFile) -> usize { let mut c = CountSink(0); match f.to_writer(&mut c) { Ok(()) => c.0 as usize, Err(_) => f.to_string().len() } }

/// Builds the file of `way` whose compact JSON has (on the unchanged library
/// exactly) `target` octets: the bulk is sized from two small probes, the rest
/// is filled by the ASCII comment of the last entry. Returns the file, the
/// units of bulk, the length of the padding comment.
fn ts_build(way: Way, target: usize) -> (SlurmFile, usize, usize) {
    const MARGIN: usize = 4096;
    let c0 = ts_count(&ts_file(way, 0));
    let cp = ts_count(&ts_file(way, way.probe()));
    let per_unit = (cp.saturating_sub(c0)).max(1) as f64 / way.probe() as f64;
    let n = if target > c0 + MARGIN { ((target - c0 - MARGIN) as f64 / per_unit) as usize } else { 0 };
    let mut f = ts_file(way, n);
    let have = ts_count(&f);
    let pad = target.saturating_sub(have);
    *ts_last_comment(&mut f, way.pad_section()) = Some("x".repeat(pad));
    (f, n, pad)
}

#[derive(Clone, Copy, Debug, PartialEq, Eq)]
enum ParseRoute { FromStr, FromSlice, ReaderSlice, ReaderBuf, ReaderVar, ReaderOne, ReaderBufOdd }
impl ParseRoute {
    fn text(self) -> &'static str {
        match self {
            ParseRoute::FromStr => "SlurmFile::from_str", ParseRoute::FromSlice => "serde_json::from_slice::<SlurmFile>", ParseRoute::ReaderSlice => "SlurmFile::from_reader(&[u8])",
            ParseRoute::ReaderBuf => "SlurmFile::from_reader(BufReader::new(&[u8]))", ParseRoute::ReaderVar => "SlurmFile::from_reader(a reader returning 1, 7, 4093, 65521, 3, 8192, 2, 100003, ... octets per call)",
            ParseRoute::ReaderOne => "SlurmFile::from_reader(a reader returning 1 octet per call)", ParseRoute::ReaderBufOdd => "SlurmFile::from_reader(BufReader::with_capacity(4099, a reader returning 4093 octets per call))",
        }
    }
    fn run(self, d: &[u8]) -> Result<SlurmFile, String> {
        match self {
            ParseRoute::FromStr => SlurmFile::from_str(std::str::from_utf8(d).map_err(|e| format!("the document is not UTF-8: {e}"))?).map_err(|e| e.to_string()),
            ParseRoute::FromSlice => serde_json::from_slice::<SlurmFile>(d).map_err(|e| e.to_string()),
            ParseRoute::ReaderSlice => SlurmFile::from_reader(d).map_err(|e| e.to_string()),
            ParseRoute::ReaderBuf => SlurmFile::from_reader(io::BufReader::new(d)).map_err(|e| e.to_string()),
            ParseRoute::ReaderVar => SlurmFile::from_reader(VarChunkReader { data: d, sizes: TS_CHUNKS, i: 0 }).map_err(|e| e.to_string()),
            ParseRoute::ReaderOne => SlurmFile::from_reader(ChunkReader { data: d, k: 1 }).map_err(|e| e.to_string()),
            ParseRoute::ReaderBufOdd => SlurmFile::from_reader(io::BufReader::with_capacity(4099, ChunkReader { data: d, k: 4093 })).map_err(|e| e.to_string()),
        }
    }
}

struct TsCase { way: Way, exp: u32, delta: i64 }
impl TsCase {
    fn target(&self) -> usize { ((1i64 << self.exp) + self.delta) as usize }
    fn text(&self) -> String { format!("{}; compact JSON of 2^{}{} = {} octets", self.way.text(), self.exp, match self.delta { 0 => String::new(), d => format!("{d:+}") }, self.target()) }
}

struct TsTally { bad: Vec<(String, String)>, good: Vec<String>, ev: u64 }

/// One parse of one document: equal to the file written, same number of payload items.
fn ts_parse_and_judge(t: &mut TsTally, oc: &mut Oc, ser: &str, pr: ParseRoute, d: &[u8], f: &SlurmFile, want_payloads: usize) {
    t.ev += 1;
    let pair = format!("{ser} -> {}", pr.text());
    match guard(|| pr.run(d).map(|g| (g == *f, g.assertions.iter_payload().count()))) {
        Err(p) => t.bad.push((pair, format!("PANIC {p}"))),
        Ok(Err(e)) => { bump(oc, "own-output-rejected"); t.bad.push((pair, format!("own output of {} octets rejected: {e}", d.len()))) }
        Ok(Ok((false, _))) => { bump(oc, "parsed-file-differs"); t.bad.push((pair, format!("the file parsed from {} octets differs from the file written", d.len()))) }
        Ok(Ok((true, n))) if n != want_payloads => t.bad.push((pair, format!("the parsed file is equal but its iter_payload yields {n} items, the file has {want_payloads} assertions"))),
        Ok(Ok((true, _))) => { bump(oc, "round-trip-equal"); t.good.push(pair) }
    }
}

/// One document size reached in one way, through every route. Returns (executions, size hit exactly).
fn ts_case(lf: &mut Lf, oc: &mut Oc, case: &TsCase, thorough: bool, value_limit: usize) -> (u64, bool) {
    let head = case.text();
    let (f, n, pad) = match guard(|| ts_build(case.way, case.target())) {
        Ok(x) => x,
        Err(p) => { lf.fail("C15.json.total_size.no_panic", || format!("{head}: while building the file"), || p.clone()); return (1, false) }
    };
    let mut desc = format!("{head} ({n} {}, padding comment of {pad} characters on the last entry of {})", case.way.unit(), TS_SECTIONS[case.way.pad_section()]);
    let want_payloads = f.assertions.prefix.len() + f.assertions.bgpsec.len() + f.assertions.aspa.as_ref().map_or(0, |v| v.len());
    let mut t = TsTally { bad: Vec::new(), good: Vec::new(), ev: 0 };
    let mut writer_bad: Vec<(String, String)> = Vec::new();
    let parse_routes: &[ParseRoute] = if thorough { &[ParseRoute::FromStr, ParseRoute::FromSlice, ParseRoute::ReaderSlice, ParseRoute::ReaderBuf, ParseRoute::ReaderVar, ParseRoute::ReaderOne, ParseRoute::ReaderBufOdd] }
        else { &[ParseRoute::FromStr, ParseRoute::FromSlice, ParseRoute::ReaderSlice, ParseRoute::ReaderBuf, ParseRoute::ReaderVar, ParseRoute::ReaderOne] };

    // serialise route 1: to_string
    t.ev += 1;
    let s = match guard(|| f.to_string()) { Ok(s) => s, Err(p) => { lf.fail("C15.json.total_size.no_panic", || format!("{desc}: to_string"), || p.clone()); return (t.ev, false) } };
    let exact = s.len() == case.target();
    if !exact { desc.push_str(&format!(" [the file was sized with to_writer into a counting sink; its to_string has {} octets]", s.len())) }
    bump(oc, if exact { "document-has-exactly-the-target-size" } else { "document-size-off-target" });
    // documents of other routes that differ from to_string's (none on the unchanged library)
    let mut others: Vec<(String, Vec<u8>)> = Vec::new();
    // serialise route 2: to_writer into a Vec
    t.ev += 1;
    match guard(|| { let mut w = Vec::new(); f.to_writer(&mut w).map(|_| w).map_err(|e| format!("{:?}: {e}", e.kind())) }) {
        Err(p) => writer_bad.push(("to_writer into a Vec".into(), format!("PANIC {p}"))),
        Ok(Err(e)) => writer_bad.push(("to_writer into a Vec".into(), format!("failed on a sink that takes everything: {e}"))),
        Ok(Ok(w)) => if w == s.as_bytes() { bump(oc, "same-octets-as-to_string") } else { bump(oc, "other-octets-than-to_string"); others.push(("to_writer into a Vec".into(), w)) },
    }
    // serialise routes 3..: sinks that take part of what they are offered; compared on the fly, stored only if they differ
    type Ser = fn(&SlurmFile, &mut dyn Write) -> Result<(), String>;
    let lib_writer: Ser = |f, w| f.to_writer(w).map_err(|e| format!("{:?}: {e}", e.kind()));
    let lib_writer_buffered: Ser = |f, w| { let mut bw = io::BufWriter::with_capacity(8192, w); f.to_writer(&mut bw).map_err(|e| format!("{:?}: {e}", e.kind()))?; bw.flush().map_err(|e| format!("flush: {e}")) };
    let direct: Ser = |f, w| serde_json::to_writer(w, f).map_err(|e| e.to_string());
    for (label, k, ser) in [("to_writer into a sink taking at most 4093 octets per call", 4093usize, lib_writer), ("to_writer into BufWriter(8192) around a sink taking at most 7 octets per call", 7, lib_writer_buffered), ("serde_json::to_writer(&file) into a sink taking at most 65521 octets per call", 65521, direct)] {
        t.ev += 1;
        match guard(|| { let mut c = CmpSink::new(s.as_bytes(), k); let r = ser(&f, &mut c); (r, c.same(), c.pos, c.diff_at) }) {
            Err(p) => writer_bad.push((label.into(), format!("PANIC {p}"))),
            Ok((Err(e), _, pos, _)) => writer_bad.push((label.into(), format!("failed after {pos} octets on a sink that never refuses: {e}"))),
            Ok((Ok(()), true, _, _)) => bump(oc, "same-octets-as-to_string"),
            Ok((Ok(()), false, _, _)) => {
                bump(oc, "other-octets-than-to_string");
                match guard(|| { let mut c = Chunk { k, got: Vec::new() }; ser(&f, &mut c).map(|_| c.got) }) { Ok(Ok(got)) => others.push((label.into(), got)), Ok(Err(e)) => writer_bad.push((label.into(), format!("failed when repeated: {e}"))), Err(p) => writer_bad.push((label.into(), format!("PANIC {p}"))) }
            }
        }
    }
    // every parse route over the document (identical octets from all serialise routes are parsed once per parse route)
    let shared = if others.is_empty() { "to_string = to_writer into every sink (same octets)" } else { "to_string" };
    for &pr in parse_routes { ts_parse_and_judge(&mut t, oc, shared, pr, s.as_bytes(), &f, want_payloads) }
    for (label, d) in &others { for &pr in parse_routes { ts_parse_and_judge(&mut t, oc, label, pr, d, &f, want_payloads) } }
    drop(others); drop(s);
    // the pretty forms
    t.ev += 2;
    match guard(|| { let p = f.to_string_pretty(); let mut c = CmpSink::new(p.as_bytes(), 4093); let r = f.to_writer_pretty(&mut c).map_err(|e| format!("{:?}: {e}", e.kind())); let same = c.same(); let pos = c.pos; (p, r, same, pos) }) {
        Err(p) => writer_bad.push(("to_string_pretty / to_writer_pretty".into(), format!("PANIC {p}"))),
        Ok((p, r, same, pos)) => {
            match r {
                Err(e) => writer_bad.push(("to_writer_pretty into a sink taking at most 4093 octets per call".into(), format!("failed after {pos} octets on a sink that never refuses: {e}"))),
                Ok(()) if same => bump(oc, "same-octets-as-to_string"),
                Ok(()) => {
                    bump(oc, "other-octets-than-to_string");
                    match guard(|| { let mut c = Chunk { k: 4093, got: Vec::new() }; f.to_writer_pretty(&mut c).map(|_| c.got) }) {
                        Ok(Ok(got)) => for pr in [ParseRoute::FromStr, ParseRoute::ReaderBuf] { ts_parse_and_judge(&mut t, oc, "to_writer_pretty into a sink taking at most 4093 octets per call", pr, &got, &f, want_payloads) },
                        Ok(Err(e)) => writer_bad.push(("to_writer_pretty".into(), format!("failed when repeated: {e}"))), Err(p) => writer_bad.push(("to_writer_pretty".into(), format!("PANIC {p}"))),
                    }
                }
            }
            let pretty_routes: &[ParseRoute] = if thorough { &[ParseRoute::FromStr, ParseRoute::ReaderBuf] } else { &[ParseRoute::FromStr] };
            for &pr in pretty_routes { ts_parse_and_judge(&mut t, oc, "to_string_pretty", pr, p.as_bytes(), &f, want_payloads) }
        }
    }
    // the serde_json::Value route (a tree of maps: many times the size of the document, hence bounded)
    if case.target() <= value_limit {
        t.ev += 2;
        let pair = "serde_json::to_value -> serde_json::from_value / Value::to_string -> SlurmFile::from_str".to_string();
        match guard(|| -> Result<(), String> {
            let v = serde_json::to_value(&f).map_err(|e| format!("to_value: {e}"))?;
            let txt = v.to_string();
            let g: SlurmFile = serde_json::from_value(v).map_err(|e| format!("from_value rejects the value: {e}"))?;
            if g != f { return Err("to_value -> from_value gives a different file".into()) }
            if g.assertions.iter_payload().count() != want_payloads { return Err("to_value -> from_value: iter_payload yields another number of items".into()) }
            drop(g);
            match SlurmFile::from_str(&txt) { Ok(g) if g == f => Ok(()), Ok(_) => Err("Value::to_string -> from_str gives a different file".into()), Err(e) => Err(format!("Value::to_string -> from_str rejected: {e}")) }
        }) { Err(p) => t.bad.push((pair, format!("PANIC {p}"))), Ok(Err(e)) => t.bad.push((pair, e)), Ok(Ok(())) => { bump(oc, "value-route-equal"); t.good.push(pair) } }
    } else { bump(oc, "value-route-not-run-above-its-size-bound") }
    let good = if t.good.is_empty() { "none".to_string() } else { t.good.join(" | ") };
    for (route, d) in &writer_bad { lf.fail(if d.starts_with("PANIC") { "C15.json.total_size.no_panic" } else { "C15.json.total_size.writer" }, || format!("{desc}: {route}"), || d.clone()) }
    for (pair, d) in &t.bad {
        let oracle = if d.starts_with("PANIC") { "C15.json.total_size.no_panic" } else if d.contains("iter_payload") { "C15.json.total_size.payload_count" } else { "C15.json.total_size.roundtrip" };
        lf.fail(oracle, || format!("{desc}: {pair}"), || format!("{d}; pairs that gave back an equal file: {good}"));
    }
    (t.ev, exact)
}

fn total_size(ctx: &Ctx, thorough: bool) {
    let (lo, hi): (u32, u32) = (16, if thorough { 27 } else { 25 });
    let value_limit: usize = (if thorough { 16usize << 20 } else { 4 << 20 }) + 1;
    let sp = ctx.space("json.total_size",
        "the TOTAL SIZE of the document as a quantity, crossed with every route: files whose compact JSON has exactly 2^e - 1, 2^e and 2^e + 1 octets for every e from 16 (64 KiB) to 25 (32 MiB) (thorough: to 27 = 128 MiB, and 2^28 + 1 octets in four of the ways), the size reached in ten WAYS: many small entries in each of the six sections in turn (entries of fixed width: ten-digit AS numbers, /24 and /64 prefixes, key identifiers, 91-octet keys, 0..3 providers, some with comments), ASPA assertions with ProviderAsns::MAX_COUNT = 16380 providers each (the last one with the remainder), one BGPsec assertion whose key is the document, one long ASCII comment and one long comment of quotes, backslashes, control and non-ASCII characters (each held by an entry of each of the six sections in turn over the sizes); every file has an entry in every section, and the ASCII comment of the last entry of the way's section pads it to the exact size. Every file goes through EVERY serialise route (to_string, to_writer into a Vec, into a sink taking <= 4093 octets per call, into a BufWriter around a sink taking <= 7 octets per call, serde_json::to_writer of the file into a sink taking <= 65521 per call; to_string_pretty and to_writer_pretty into a sink taking <= 4093 per call) x EVERY parse route (SlurmFile::from_str, serde_json::from_slice, SlurmFile::from_reader over a slice, over a BufReader, over a reader returning 1 / 7 / 4093 / 65521 / 3 / 8192 / 2 / 100003 / ... octets per call, over a reader returning 1 octet per call; thorough: also over a BufReader of capacity 4099 around a reader returning 4093 per call). The parse routes see nothing but the octets, so serialise routes whose octets are identical (compared as they arrive at the sink) share one parse per parse route; a route with other octets is parsed on its own by every parse route. The pretty form is parsed by from_str (thorough: also by from_reader over a BufReader); up to 4 MiB + 1 (thorough 16 MiB + 1; the tree of maps takes some 30 times the size of the document) also to_value -> from_value and Value::to_string -> from_str. Oracle: every pairing gives back a file equal to the one written whose iter_payload yields as many items as the file has assertions (hence all routes agree); a serialise route may fail only if its sink refuses, and these sinks never do. Large cases run a few at a time (memory), largest first. non-trivial = files whose compact JSON has exactly the target size");
    space_body(ctx, &sp.clone(), || {
        let mut cases: Vec<TsCase> = Vec::new();
        for e in lo..=hi { for (ni, delta) in [-1i64, 0, 1].into_iter().enumerate() {
            let rot = (e - lo) as usize + ni;
            for s in 0..6 { cases.push(TsCase { way: Way::Section(s), exp: e, delta }) }
            cases.push(TsCase { way: Way::AspaMax, exp: e, delta });
            cases.push(TsCase { way: Way::LongKey, exp: e, delta });
            cases.push(TsCase { way: Way::Comment { escapes: false, holder: rot % 6 }, exp: e, delta });
            cases.push(TsCase { way: Way::Comment { escapes: true, holder: (rot + 3) % 6 }, exp: e, delta });
        }}
        if thorough { for way in [Way::Section(0), Way::AspaMax, Way::LongKey, Way::Comment { escapes: false, holder: 3 }] { cases.push(TsCase { way, exp: hi + 1, delta: 1 }) } }
        // largest first; a case is started only while the documents in flight fit the memory budget
        // (weight: octets of the document x 6 for the file, the document, the parsed file and the growth of
        // their vectors, measured; x 30 with the Value tree), smaller cases fill the other threads
        let weight = |c: &TsCase| -> u64 { c.target() as u64 * if c.target() <= value_limit { 30 } else { 6 } };
        let budget: u64 = cases.iter().map(weight).max().unwrap_or(0).max(if thorough { 3u64 << 30 } else { 3u64 << 29 });
        cases.sort_by(|a, b| b.target().cmp(&a.target()));
        let n_cases = cases.len();
        let state = Mutex::new((std::collections::VecDeque::from(cases), budget));
        let cv = std::sync::Condvar::new();
        let threads = rayon::current_num_threads().max(1);
        std::thread::scope(|scope| {
            for _ in 0..threads {
                scope.spawn(|| {
                    loop {
                        let case = {
                            let mut g = state.lock().unwrap();
                            loop {
                                if g.0.is_empty() { break None }
                                let wf = weight(g.0.front().unwrap());
                                if wf <= g.1 { g.1 -= wf; break g.0.pop_front() }
                                let wb = weight(g.0.back().unwrap());
                                if wb <= g.1 { g.1 -= wb; break g.0.pop_back() }
                                g = cv.wait(g).unwrap();
                            }
                        };
                        let Some(case) = case else { break };
                        rpki_verif::note_case(|| case.text());
                        let mut lf = Lf::new(); let mut oc = Oc::new();
                        if let Some((ev, exact)) = unit(|| case.text(), || ts_case(&mut lf, &mut oc, &case, thorough, value_limit)) { sp.evals(ev); if exact { sp.nontrivial(1) } }
                        sp.merge_outcomes(&oc);
                        drop(lf);
                        // hand the freed small allocations of a large case back to the system before the next one starts
                        // SAFETY: malloc_trim has no preconditions.
                        if case.target() >= 1 << 22 { unsafe { libc::malloc_trim(0); } }
                        state.lock().unwrap().1 += weight(&case);
                        cv.notify_all();
                    }
                });
            }
        });
        sp.set("sizes", serde_json::json!(format!("2^e - 1, 2^e, 2^e + 1 for e = {lo}..={hi}{}", if thorough { format!("; 2^{} + 1 for prefixFilters, ASPA assertions with 16380 providers, the long key and the long ASCII comment", hi + 1) } else { String::new() })));
        sp.set("ways", serde_json::json!((0..6).map(|s| Way::Section(s).text()).chain([Way::AspaMax.text(), Way::LongKey.text(), "one long ASCII comment, on an entry of each section in turn".to_string(), "one long comment of characters that need escapes or several octets, on an entry of each section in turn".to_string()]).collect::<Vec<_>>()));
        sp.set("cases", serde_json::json!(n_cases));
        sp.set("value_route_up_to_octets", serde_json::json!(value_limit));
        sp.sample_str(|| TsCase { way: Way::AspaMax, exp: 24, delta: 1 }.text());
        sp.sample_str(|| TsCase { way: Way::Section(0), exp: hi, delta: 1 }.text());
    });
    sp.done(true, &format!("10 ways x 3 sizes around every power of two from 2^{lo} to 2^{hi} octets{} x all serialise routes x all parse routes", if thorough { format!(" + 4 ways at 2^{} + 1", hi + 1) } else { String::new() }));
}

fn main() {
    let ctx = Ctx::new("C15", "exploration");
    ctx.assume("RFC 8416 section 3.3 (as restated in the property) is the specification of the drop decision; serde_json is trusted as a JSON reader/writer of primitive values");
    ctx.assume("Prefix::new / MaxLenPrefix::new / KeyIdentifier::from build the values the model names (C13 checks them); covering is re-decided on integers here");
    let thorough = ctx.tier.is_thorough();

    // model self-check
    {
        let a = MPfx::v4([192, 0, 2, 0], 24);
        let ok = a.covers(MPfx::v4([192, 0, 2, 128], 25)) && !MPfx::v4([192, 0, 2, 128], 25).covers(a) && MPfx::v4([0, 0, 0, 0], 0).covers(a)
            && !MPfx::v6(0, 0, 0).covers(a) && !MPfx::v4([192, 0, 3, 0], 24).covers(a) && MPfx::of_addr(true, 0xC0000281, 24) == a
            && MPfx::v6(0x2001_0db8_0000_0000, 0, 32).covers(MPfx::v6(0x2001_0db8_ffff_0000, 0, 48));
        if !ok { ctx.machinery_error("covering model self-check failed") }
    }

    // ------------------------------------------------------------------ (1)
    let sp = ctx.space("filter.single",
        "every single filter against every payload item, through the filter's own drop_origin / drop_router_key / drop_aspa and drop_payload: prefix filters = {absent} + every length 0..32 (0..128) of the prefixes of 192.0.2.129, 2001:db8:0:8000::81 and the IPv4-mapped ::ffff:192.0.2.129, and of the address with the last prefix bit flipped, x AS {absent, equal, different}; origins = the same prefix grid x 2 AS; BGPsec filters = SKI {absent, K1, K2 (last bit differs)} x AS {absent, equal, different}; ASPA filters = customer {absent, equal, different, = a provider}; drop_payload of a filter on an item of another kind must be false; non-trivial = pairs where the filter has a criterion and is of the item's kind");
    space_body(&ctx, &sp.clone(), || {
        let a4: u128 = 0xC000_0281; let a6: u128 = (0x2001_0db8_0000_8000u128 << 64) | 0x81;
        let mut grid: Vec<MPfx> = Vec::new();
        let a6m: u128 = 0x0000_ffff_c000_0281; // ::ffff:192.0.2.129 (IPv4-mapped)
        for (v4, addr, w) in [(true, a4, 32u8), (false, a6, 128u8), (false, a6m, 128u8)] {
            for len in 0..=w {
                grid.push(MPfx::of_addr(v4, addr, len));
                if len > 0 { let flip = addr ^ (1u128 << (w - len) as u32); grid.push(MPfx::of_addr(v4, flip, len)) }
            }
        }
        grid.sort(); grid.dedup();
        // an IPv6 prefix with the same leading bits as 192.0.2.0/24 and vice versa (family confusion)
        grid.push(MPfx::v6(0xC000_0200_0000_0000, 0, 24)); grid.push(MPfx::v4([0x20, 0x01, 0x0d, 0xb8], 32));
        grid.extend(unusual_v6()); grid.extend(long_text_prefixes()); grid.sort(); grid.dedup();
        let asns = [None, Some(64496u32), Some(64497)];
        let mut pfs: Vec<MPF> = Vec::new();
        for a in asns { pfs.push(MPF { prefix: None, asn: a, comment: None }); for &g in &grid { pfs.push(MPF { prefix: Some(g), asn: a, comment: None }) } }
        let origins: Vec<MPay> = grid.iter().flat_map(|&g| [64496u32, 0].into_iter().map(move |asn| MPay::Origin { p: g, maxlen: if g.len % 2 == 0 { None } else { Some(g.width() as u8) }, asn })).collect();
        let keys: Vec<MPay> = vec![MPay::Key { ski: K1, asn: 64496, info: vec![1, 2, 3] }, MPay::Key { ski: K2, asn: 64496, info: vec![1, 2, 3] }, MPay::Key { ski: K1, asn: 0, info: vec![] }];
        let aspas: Vec<MPay> = vec![MPay::Aspa { customer: 64496, providers: vec![64499] }, MPay::Aspa { customer: 64499, providers: vec![64496] }, MPay::Aspa { customer: 0, providers: vec![] }];
        let lib_origins: Vec<Payload> = origins.iter().map(|p| p.lib()).collect();
        let lib_others: Vec<(MPay, Payload)> = keys.iter().chain(aspas.iter()).map(|p| (p.clone(), p.lib())).collect();
        {
            let mut lf = Lf::new();
            for (m, p) in origins.iter().zip(lib_origins.iter()).chain(lib_others.iter().map(|(m, p)| (m, p))) {
                sp.eval();
                if fields_of(p) != *m { lf.fail("C15.assertions.payload", || format!("payload={}", m.text()), || format!("constructed item reads back as {}", fields_of(p).text())) }
                if let Some(d) = accessor_disagreement(p) { lf.fail("C15.assertions.payload.accessors", || format!("payload={}", m.text()), || d.clone()) }
            }
        }
        pfs.par_iter().for_each(|f| {
            unit(|| format!("filter={}", f.text()), || {
            let mut lf = Lf::new(); let mut oc = Oc::new(); let (mut ev, mut nt) = (0u64, 0u64);
            let lf_ = f.lib();
            for (o, lo) in origins.iter().zip(lib_origins.iter()) {
                let MPay::Origin { p, asn, .. } = o else { unreachable!() };
                let want = f.matches(*p, *asn);
                let wit = || format!("filter={} payload={}", f.text(), o.text());
                match guard(|| (lf_.drop_origin(lo.to_origin().unwrap()), lf_.drop_payload(lo))) {
                    Err(e) => lf.fail("C15.filter.no_panic", wit, || e.clone()),
                    Ok((a, b)) => if a != want || b != want { lf.fail("C15.filter.prefix", wit, || format!("drop_origin={a} drop_payload={b}, the filter {} match", if want { "does" } else { "does not" })) }
                }
                ev += 2; if f.prefix.is_some() || f.asn.is_some() { nt += 1 }
                bump(&mut oc, if want { "dropped" } else { "kept" });
            }
            for (m, p) in &lib_others {
                ev += 1;
                if guard(|| lf_.drop_payload(p)) != Ok(false) { lf.fail("C15.filter.prefix", || format!("filter={} payload={}", f.text(), m.text()), || "a prefix filter dropped an item of another kind".into()) }
            }
            sp.evals(ev); sp.nontrivial(nt); sp.merge_outcomes(&oc);
            });
        });
        let mut lf = Lf::new(); let mut oc = Oc::new();
        for ski in [None, Some(K1), Some(K2)] { for asn in asns {
            let f = MBF { ski, asn, comment: None }; let l = f.lib();
            for k in &keys {
                let MPay::Key { ski: ks, asn: ka, .. } = k else { unreachable!() };
                let want = f.matches(ks, *ka); let lp = k.lib();
                let wit = || format!("filter={} payload={}", f.text(), k.text());
                match guard(|| (l.drop_router_key(lp.as_router_key().unwrap()), l.drop_payload(&lp))) {
                    Err(e) => lf.fail("C15.filter.no_panic", wit, || e.clone()),
                    Ok((a, b)) => if a != want || b != want { lf.fail("C15.filter.bgpsec", wit, || format!("drop_router_key={a} drop_payload={b}, expected {want}")) }
                }
                sp.evals(2); if ski.is_some() || asn.is_some() { sp.nontrivial(1) }
                bump(&mut oc, if want { "dropped" } else { "kept" });
            }
            for o in lib_origins.iter().take(4).chain(aspas.iter().map(|a| a.lib()).collect::<Vec<_>>().iter()) {
                sp.eval();
                if guard(|| l.drop_payload(o)) != Ok(false) { lf.fail("C15.filter.bgpsec", || format!("filter={} payload={}", f.text(), fields_of(o).text()), || "a BGPsec filter dropped an item of another kind".into()) }
            }
        }}
        for customer in [None, Some(64496u32), Some(64497), Some(64499)] {
            let f = MAF { customer, comment: None }; let l = f.lib();
            for a in &aspas {
                let MPay::Aspa { customer: c, .. } = a else { unreachable!() };
                let want = f.matches(*c); let lp = a.lib();
                let wit = || format!("filter={} payload={}", f.text(), a.text());
                match guard(|| (l.drop_aspa(lp.as_aspa().unwrap()), l.drop_payload(&lp))) {
                    Err(e) => lf.fail("C15.filter.no_panic", wit, || e.clone()),
                    Ok((x, y)) => if x != want || y != want { lf.fail("C15.filter.aspa", wit, || format!("drop_aspa={x} drop_payload={y}, expected {want}")) }
                }
                sp.evals(2); if customer.is_some() { sp.nontrivial(1) }
                bump(&mut oc, if want { "dropped" } else { "kept" });
            }
            for o in lib_origins.iter().take(4).chain(keys.iter().map(|a| a.lib()).collect::<Vec<_>>().iter()) {
                sp.eval();
                if guard(|| l.drop_payload(o)) != Ok(false) { lf.fail("C15.filter.aspa", || format!("filter={} payload={}", f.text(), fields_of(o).text()), || "an ASPA filter dropped an item of another kind".into()) }
            }
        }
        sp.merge_outcomes(&oc);
        sp.set("prefix_grid", serde_json::json!(grid.len()));
        sp.sample_str(|| format!("{} prefix filters x {} origins", pfs.len(), origins.len()));
    });
    sp.done(true, "all single filters x all payload items");

    // ------------------------------------------------------------------ (2)
    let sp = ctx.space("drop.filter_lists",
        "all prefix-filter lists of length <= 2 x all BGPsec-filter lists of length <= 2 x ASPA section {absent} + all lists of length <= 2 (thorough: prefix lists <= 3 with the other kinds <= 1 in addition), each against 8 origins (incl. IPv4-mapped IPv6), 4 router keys, 3 ASPAs, through ValidationOutputFilters::drop_payload and through SlurmFile::drop_payload of three files holding those filters (SlurmFile::new; new without ASPA sections then the public fields assigned; default() then filters assigned); criterion alphabets: prefix {absent, equal, covering /16, more specific /25, disjoint, other family, same leading bits in the other family, 0.0.0.0/0, ::/0, ::ffff:0:0/96, ::ffff:192.0.2.0/120, ::192.0.2.0/120} x AS {absent, equal, different} (+ one with a comment), SKI {absent, equal, different} x AS likewise, customer {absent, equal, different, = a provider of the item}; non-trivial = (lists, item) pairs in which some filter of the item's kind has a criterion; outcome classes count the reference verdicts (kept / dropped by kind), which the library must reproduce");
    space_body(&ctx, &sp.clone(), || {
        let base = MPfx::v4([192, 0, 2, 0], 24);
        let pfx_alpha: Vec<Option<MPfx>> = vec![None, Some(base), Some(MPfx::v4([192, 0, 0, 0], 16)), Some(MPfx::v4([192, 0, 2, 0], 25)), Some(MPfx::v4([198, 51, 100, 0], 24)),
            Some(MPfx::v6(0x2001_0db8_0000_0000, 0, 32)), Some(MPfx::v6(0xC000_0200_0000_0000, 0, 24)), Some(MPfx::v4([0, 0, 0, 0], 0)), Some(MPfx::v6(0, 0, 0)),
            Some(MPfx::v6(0, 0x0000_ffff_0000_0000, 96)), Some(MPfx::v6(0, 0x0000_ffff_c000_0200, 120)), Some(MPfx::v6(0, 0x0000_0000_c000_0200, 120))];
        let asn_alpha = [None, Some(64496u32), Some(64497)];
        let mut pf_items: Vec<MPF> = Vec::new();
        for &p in &pfx_alpha { for a in asn_alpha { pf_items.push(MPF { prefix: p, asn: a, comment: None }) } }
        pf_items.push(MPF { prefix: Some(base), asn: None, comment: Some(TRICKY) });
        let mut bf_items: Vec<MBF> = Vec::new();
        for s in [None, Some(K1), Some(K2)] { for a in asn_alpha { bf_items.push(MBF { ski: s, asn: a, comment: None }) } }
        bf_items.push(MBF { ski: None, asn: None, comment: Some("only a comment") });
        let af_items: Vec<MAF> = vec![MAF { customer: None, comment: None }, MAF { customer: Some(64496), comment: None }, MAF { customer: Some(64497), comment: None },
            MAF { customer: Some(64499), comment: Some("c") }];
        let pays: Vec<MPay> = vec![
            MPay::Origin { p: base, maxlen: None, asn: 64496 }, MPay::Origin { p: base, maxlen: Some(28), asn: 64497 },
            MPay::Origin { p: MPfx::v4([192, 0, 2, 128], 25), maxlen: Some(32), asn: 64496 }, MPay::Origin { p: MPfx::v4([192, 0, 0, 0], 8), maxlen: None, asn: 64496 },
            MPay::Origin { p: MPfx::v6(0x2001_0db8_0000_0000, 0, 32), maxlen: Some(48), asn: 64496 }, MPay::Origin { p: MPfx::v6(0xC000_0200_0000_0000, 0, 24), maxlen: None, asn: 64498 },
            MPay::Origin { p: MPfx::v6(0, 0x0000_ffff_c000_0200, 120), maxlen: Some(128), asn: 64496 }, MPay::Origin { p: MPfx::v6(0, 0x0000_ffff_c000_0201, 128), maxlen: None, asn: 64497 },
            MPay::Key { ski: K1, asn: 64496, info: vec![0x30, 0x59] }, MPay::Key { ski: K2, asn: 64496, info: vec![0x30, 0x59] },
            MPay::Key { ski: K1, asn: 64497, info: vec![] }, MPay::Key { ski: K0, asn: 64498, info: vec![1] },
            MPay::Aspa { customer: 64496, providers: vec![64499] }, MPay::Aspa { customer: 64497, providers: vec![64496, 64499] }, MPay::Aspa { customer: 64498, providers: vec![] },
        ];
        let lib_pays: Vec<Payload> = pays.iter().map(|p| p.lib()).collect();
        {
            let mut lf = Lf::new();
            for (m, p) in pays.iter().zip(lib_pays.iter()) {
                if let Some(d) = accessor_disagreement(p) { lf.fail("C15.assertions.payload.accessors", || format!("payload={}", m.text()), || d.clone()) }
            }
        }
        let pf_lists = lists(&pf_items, 2); let bf_lists = lists(&bf_items, 2);
        let mut af_lists: Vec<Option<Vec<MAF>>> = vec![None]; af_lists.extend(lists(&af_items, 2).into_iter().map(Some));
        let lib_pf: Vec<Vec<PrefixFilter>> = pf_lists.iter().map(|l| l.iter().map(|f| f.lib()).collect()).collect();
        let lib_bf: Vec<Vec<BgpsecFilter>> = bf_lists.iter().map(|l| l.iter().map(|f| f.lib()).collect()).collect();
        let lib_af: Vec<Option<Vec<AspaFilter>>> = af_lists.iter().map(|o| o.as_ref().map(|l| l.iter().map(|f| f.lib()).collect())).collect();
        // per-kind model verdicts (the model's structure: only filters of the item's kind matter)
        let crit_pf: Vec<bool> = pf_lists.iter().map(|l| l.iter().any(|f| f.prefix.is_some() || f.asn.is_some())).collect();
        let crit_bf: Vec<bool> = bf_lists.iter().map(|l| l.iter().any(|f| f.ski.is_some() || f.asn.is_some())).collect();
        let crit_af: Vec<bool> = af_lists.iter().map(|o| o.as_ref().map_or(false, |l| l.iter().any(|f| f.customer.is_some()))).collect();

        let run = |pi: usize, bi: usize, ai: usize, lf: &mut Lf, cnt: &mut [u64; 6]| {
            let (mp, mb, ma) = (&pf_lists[pi], &bf_lists[bi], af_lists[ai].as_deref());
            let mk = || ValidationOutputFilters { prefix: lib_pf[pi].clone(), bgpsec: lib_bf[bi].clone(), aspa: lib_af[ai].clone() };
            // three ways to arrive at a file holding these filters
            let f_new = SlurmFile::new(mk(), LocallyAddedAssertions::default());
            let mut f_v1 = SlurmFile::new(ValidationOutputFilters::new(Vec::new(), Vec::new()), LocallyAddedAssertions::new(Vec::new(), Vec::new()));
            f_v1.filters.prefix = lib_pf[pi].clone(); f_v1.filters.bgpsec = lib_bf[bi].clone(); f_v1.filters.aspa = lib_af[ai].clone();
            let mut f_def = SlurmFile::default(); f_def.filters = mk();
            let files = [("SlurmFile::new", &f_new), ("new(no ASPA sections), then the public filter fields assigned", &f_v1), ("default(), then filters assigned", &f_def)];
            for (k, p) in pays.iter().enumerate() {
                let want = model_drop(mp, mb, ma, p);
                let (oracle, crit) = match p { MPay::Origin { .. } => ("C15.drop.origin", crit_pf[pi]), MPay::Key { .. } => ("C15.drop.router_key", crit_bf[bi]), MPay::Aspa { .. } => ("C15.drop.aspa", crit_af[ai]) };
                let verdict = if want { "matches, the item must be dropped" } else { "does not match, the item must be kept" };
                for (form, file) in files {
                    match guard(|| file.drop_payload(&lib_pays[k])) {
                        Err(e) => lf.fail("C15.drop.no_panic", || format!("file={form} {} payload={}", filters_text(mp, mb, ma), p.text()), || e.clone()),
                        Ok(a) => if a != want {
                            lf.fail(oracle, || format!("file={form} {} payload={}", filters_text(mp, mb, ma), p.text()), || format!("SlurmFile::drop_payload={a}; a {} filter {verdict}", p.kind()))
                        }
                    }
                }
                match guard(|| f_new.filters.drop_payload(&lib_pays[k])) {
                    Err(e) => lf.fail("C15.drop.no_panic", || format!("{} payload={}", filters_text(mp, mb, ma), p.text()), || e.clone()),
                    Ok(b) => if b != want {
                        lf.fail(oracle, || format!("{} payload={}", filters_text(mp, mb, ma), p.text()), || format!("ValidationOutputFilters::drop_payload={b}; a {} filter {verdict}", p.kind()))
                    }
                }
                cnt[0] += 4; if crit { cnt[1] += 1 }
                match (want, p) { (false, _) => cnt[2] += 1, (true, MPay::Origin { .. }) => cnt[3] += 1, (true, MPay::Key { .. }) => cnt[4] += 1, (true, MPay::Aspa { .. }) => cnt[5] += 1 }
            }
        };
        let flush = |cnt: &[u64; 6]| {
            sp.evals(cnt[0]); sp.nontrivial(cnt[1]);
            sp.outcomes_n("kept", cnt[2]); sp.outcomes_n("dropped-origin", cnt[3]); sp.outcomes_n("dropped-router-key", cnt[4]); sp.outcomes_n("dropped-aspa", cnt[5]);
        };
        (0..pf_lists.len()).into_par_iter().for_each(|pi| {
            unit(|| format!("prefix filter list #{pi}"), || {
            let mut lf = Lf::new(); let mut cnt = [0u64; 6];
            for bi in 0..bf_lists.len() { for ai in 0..af_lists.len() { run(pi, bi, ai, &mut lf, &mut cnt) } }
            flush(&cnt);
            });
        });
        let mut bound = format!("{} prefix lists x {} BGPsec lists x {} ASPA sections x {} items", pf_lists.len(), bf_lists.len(), af_lists.len(), pays.len());
        if thorough {
            // prefix lists of length 3 with the other kinds of length <= 1
            let pf3: Vec<Vec<MPF>> = lists(&pf_items, 3).into_iter().filter(|l| l.len() == 3).collect();
            let bf1: Vec<usize> = (0..bf_lists.len()).filter(|&i| bf_lists[i].len() <= 1).collect();
            let af1: Vec<usize> = (0..af_lists.len()).filter(|&i| af_lists[i].as_ref().map_or(true, |l| l.len() <= 1)).collect();
            pf3.par_iter().for_each(|mp| {
                unit(|| format!("prefix filter list of 3: {}", filters_text(mp, &[], None)), || {
                let mut lf = Lf::new(); let mut cnt = [0u64; 6];
                let lp: Vec<PrefixFilter> = mp.iter().map(|f| f.lib()).collect();
                let crit = mp.iter().any(|f| f.prefix.is_some() || f.asn.is_some());
                for &bi in &bf1 { for &ai in &af1 {
                    let (mb, ma) = (&bf_lists[bi], af_lists[ai].as_deref());
                    let file = SlurmFile::new(ValidationOutputFilters { prefix: lp.clone(), bgpsec: lib_bf[bi].clone(), aspa: lib_af[ai].clone() }, LocallyAddedAssertions::default());
                    for (k, p) in pays.iter().enumerate() {
                        let want = model_drop(mp, mb, ma, p);
                        let (oracle, c) = match p { MPay::Origin { .. } => ("C15.drop.origin", crit), MPay::Key { .. } => ("C15.drop.router_key", crit_bf[bi]), MPay::Aspa { .. } => ("C15.drop.aspa", crit_af[ai]) };
                        match guard(|| file.drop_payload(&lib_pays[k])) {
                            Err(e) => lf.fail("C15.drop.no_panic", || format!("{} payload={}", filters_text(mp, mb, ma), p.text()), || e.clone()),
                            Ok(a) => if a != want { lf.fail(oracle, || format!("{} payload={}", filters_text(mp, mb, ma), p.text()), || format!("drop_payload={a}, expected {want}")) }
                        }
                        cnt[0] += 1; if c { cnt[1] += 1 }
                        match (want, p) { (false, _) => cnt[2] += 1, (true, MPay::Origin { .. }) => cnt[3] += 1, (true, MPay::Key { .. }) => cnt[4] += 1, (true, MPay::Aspa { .. }) => cnt[5] += 1 }
                    }
                }}
                flush(&cnt);
                });
            });
            bound.push_str(&format!(" + {} prefix lists of length 3 x {} x {}", pf3.len(), bf1.len(), af1.len()));
        }
        sp.set("prefix_filter_alphabet", serde_json::json!(pf_items.iter().map(|f| f.text()).collect::<Vec<_>>()));
        sp.set("payload_items", serde_json::json!(pays.iter().map(|p| p.text()).collect::<Vec<_>>()));
        sp.sample_str(|| format!("{} payload={}", filters_text(&pf_lists[5], &bf_lists[3], af_lists[2].as_deref()), pays[6].text()));
        sp.done(true, &bound);

        // -------------------------------------------------------------- (2b)
        let sp = ctx.space("drop.file_forms",
            "filter lists of length <= 1 per always-present kind x ASPA section {absent} + all lists of length <= 2, each held by every kind of file: parsed from hand-written RFC 8416 text with slurmVersion {1,2} x absent ASPA sections {left out, null} x aspaAssertions {absent, [], one entry}; built by SlurmFile::new and then changed through every public field (from a file without ASPA sections, from default(), from a file with other ASPA filters, assertions added afterwards, ASPA filters cleared and restored); cloned; written and parsed back. SlurmFile::drop_payload and ValidationOutputFilters::drop_payload on all 15 items must equal the reference predicate (which does not look at the version number); parsed files must also survive to_string -> from_str and yield their assertion's payload; non-trivial = (file, item) pairs in which a filter of the item's kind has a criterion; rejected texts are counted, not judged");
        space_body(&ctx, &sp.clone(), || {
            let pf1: Vec<usize> = (0..pf_lists.len()).filter(|&i| pf_lists[i].len() <= 1).collect();
            let bf1: Vec<usize> = (0..bf_lists.len()).filter(|&i| bf_lists[i].len() <= 1).collect();
            let one_aa = MAA { customer: 64496, providers: vec![64499, 64497], comment: None };
            let one_pa = MPA { p: MPfx::v6(0, 0x0000_ffff_c000_0200, 120), maxlen: Some(124), asn: 64496, comment: None };
            pf1.par_iter().for_each(|&pi| {
                unit(|| format!("file forms, prefix filter list #{pi}"), || {
                let mut lf = Lf::new(); let mut oc = Oc::new(); let (mut ev, mut nt) = (0u64, 0u64);
                for &bi in &bf1 { for ai in 0..af_lists.len() {
                    let (mp, mb, ma) = (&pf_lists[pi], &bf_lists[bi], af_lists[ai].as_deref());
                    let target = || ValidationOutputFilters { prefix: lib_pf[pi].clone(), bgpsec: lib_bf[bi].clone(), aspa: lib_af[ai].clone() };
                    let mut files: Vec<(String, SlurmFile, Option<Vec<MPay>>)> = Vec::new();
                    // (i) parsed from text
                    for version in [1u8, 2] { for null in [false, true] { for aa_form in 0..3 {
                        if null && ma.is_some() && aa_form != 0 { continue } // `null` only changes absent sections
                        let m = MFile { pf: mp.clone(), bf: mb.clone(), af: ma.map(|x| x.to_vec()), pa: if aa_form == 2 { vec![one_pa.clone()] } else { vec![] }, ba: vec![],
                            aa: match aa_form { 0 => None, 1 => Some(vec![]), _ => Some(vec![one_aa.clone()]) } };
                        let text = m.json(version, null);
                        ev += 1;
                        match guard(|| SlurmFile::from_str(&text)) {
                            Err(e) => lf.fail("C15.json.no_panic", || format!("text={text}"), || e.clone()),
                            Ok(Err(_)) => bump(&mut oc, "text-rejected"),
                            Ok(Ok(f)) => {
                                bump(&mut oc, "text-accepted");
                                match guard(|| SlurmFile::from_str(&f.to_string()).map(|g| g == f).map_err(|e| e.to_string())) {
                                    Ok(Ok(true)) => {}
                                    other => lf.fail("C15.json.roundtrip", || format!("text={text}"), || format!("parsed file does not survive to_string -> from_str: {:?}; serialised as {}", other, f.to_string())),
                                }
                                files.push((format!("parsed text={text}"), f, Some(m.payloads())));
                            }
                        }
                    }}}
                    // (ii) built and then changed through the public fields
                    {
                        let mut f = SlurmFile::new(ValidationOutputFilters::new(Vec::new(), Vec::new()), LocallyAddedAssertions::new(Vec::new(), Vec::new()));
                        f.filters.prefix = lib_pf[pi].clone(); f.filters.bgpsec = lib_bf[bi].clone(); f.filters.aspa = lib_af[ai].clone();
                        files.push(("new(no ASPA sections), then each filter field assigned".into(), f, None));
                        let mut f = SlurmFile::default();
                        f.filters.prefix = lib_pf[pi].clone(); f.filters.bgpsec = lib_bf[bi].clone(); f.filters.aspa = lib_af[ai].clone();
                        files.push(("default(), then each filter field assigned".into(), f, None));
                        let mut f = SlurmFile::new(
                            ValidationOutputFilters { prefix: vec![], bgpsec: vec![], aspa: Some(vec![AspaFilter::new(Some(Asn::from_u32(64496)), None), AspaFilter::new(Some(Asn::from_u32(64497)), None)]) },
                            LocallyAddedAssertions { prefix: vec![], bgpsec: vec![], aspa: Some(vec![]) });
                        f.filters = target();
                        files.push(("new(other ASPA filters), then filters replaced".into(), f, None));
                        let mut f = SlurmFile::new(target(), LocallyAddedAssertions::default());
                        f.assertions.aspa = Some(vec![one_aa.lib()]); f.assertions.prefix.push(one_pa.lib());
                        files.push(("new(filters), then assertions added".into(), f, Some(vec![one_pa.pay(), one_aa.pay()])));
                        let mut f = SlurmFile::new(target(), LocallyAddedAssertions::default());
                        f.filters.aspa = None; f.filters.prefix.clear(); f.filters.prefix = lib_pf[pi].clone(); f.filters.aspa = lib_af[ai].clone();
                        files.push(("new(filters), then ASPA and prefix filters cleared and restored".into(), f, None));
                        let f = SlurmFile::new(target(), LocallyAddedAssertions::default());
                        files.push(("clone of new(filters)".into(), f.clone(), None));
                        if let Ok(Ok(g)) = guard(|| SlurmFile::from_str(&f.to_string_pretty())) { files.push(("new(filters) written (pretty) and parsed back".into(), g, None)) }
                        ev += 7;
                    }
                    for (form, file, want_pays) in &files {
                        if let Some(wp) = want_pays {
                            ev += 1;
                            match guard(|| file.assertions.iter_payload().map(|p| fields_of(&p)).collect::<Vec<_>>()) {
                                Ok(got) if got == *wp => {}
                                other => lf.fail("C15.assertions.payload", || format!("file={form}"), || format!("iter_payload gave {:?}, expected {:?}", other.map(|v| v.iter().map(|p| p.text()).collect::<Vec<_>>()), wp.iter().map(|p| p.text()).collect::<Vec<_>>())),
                            }
                        }
                        for (k, p) in pays.iter().enumerate() {
                            let want = model_drop(mp, mb, ma, p);
                            let (oracle, crit) = match p { MPay::Origin { .. } => ("C15.drop.origin", crit_pf[pi]), MPay::Key { .. } => ("C15.drop.router_key", crit_bf[bi]), MPay::Aspa { .. } => ("C15.drop.aspa", crit_af[ai]) };
                            match guard(|| (file.drop_payload(&lib_pays[k]), file.filters.drop_payload(&lib_pays[k]))) {
                                Err(e) => lf.fail("C15.drop.no_panic", || format!("file={form} {} payload={}", filters_text(mp, mb, ma), p.text()), || e.clone()),
                                Ok((a, b)) => if a != want || b != want {
                                    lf.fail(oracle, || format!("file={form} {} payload={}", filters_text(mp, mb, ma), p.text()),
                                        || format!("SlurmFile::drop_payload={a} ValidationOutputFilters::drop_payload={b}; a {} filter {}", p.kind(), if want { "matches, the item must be dropped" } else { "does not match, the item must be kept" }))
                                }
                            }
                            ev += 2; if crit { nt += 1 }
                            bump(&mut oc, match (want, p) { (false, _) => "kept", (true, MPay::Origin { .. }) => "dropped-origin", (true, MPay::Key { .. }) => "dropped-router-key", (true, MPay::Aspa { .. }) => "dropped-aspa" });
                        }
                    }
                }}
                sp.evals(ev); sp.nontrivial(nt); sp.merge_outcomes(&oc);
                });
            });
            sp.sample_str(|| MFile { pf: pf_lists[pf1[2]].clone(), bf: vec![], af: Some(vec![af_items[1].clone()]), pa: vec![], ba: vec![], aa: None }.json(1, false));
            sp.done(true, &format!("{} prefix lists x {} BGPsec lists x {} ASPA sections x up to 19 file forms x {} items", pf1.len(), bf1.len(), af_lists.len(), pays.len()));
        });
    });

    // ------------------------------------------------------------------ (3)
    let comments: [Cm; 4] = [None, Some(""), Some("plain text"), Some(TRICKY)];
    let asn3 = [0u32, 64496, u32::MAX];
    let pf_entries: Vec<MPF> = {
        let mut v = Vec::new();
        for p in [None, Some(MPfx::v4([192, 0, 2, 0], 24)), Some(MPfx::v6(0x2001_0db8_0000_0000, 0, 32)), Some(MPfx::v4([0, 0, 0, 0], 0)), Some(MPfx::v6(u64::MAX, u64::MAX, 128))] {
            for a in [None, Some(0u32), Some(64496), Some(u32::MAX)] { for c in comments { v.push(MPF { prefix: p, asn: a, comment: c }) } }
        }
        v
    };
    let pf_entries: Vec<MPF> = {
        let mut v = pf_entries;
        for p in unusual_v6().into_iter().chain(long_text_prefixes()).chain([MPfx::v4([192, 0, 2, 1], 32)]) { for a in [None, Some(64496u32)] { v.push(MPF { prefix: Some(p), asn: a, comment: None }) } }
        v
    };
    let bf_entries: Vec<MBF> = {
        let mut v = Vec::new();
        for s in [None, Some(K1), Some(K0), Some(KF)] { for a in [None, Some(0u32), Some(u32::MAX)] { for c in [None, Some(TRICKY)] { v.push(MBF { ski: s, asn: a, comment: c }) } } }
        v
    };
    let af_entries: Vec<MAF> = {
        let mut v = Vec::new();
        for cu in [None, Some(0u32), Some(64496), Some(u32::MAX)] { for c in comments { v.push(MAF { customer: cu, comment: c }) } }
        v
    };
    let pa_entries: Vec<MPA> = {
        let mut v = Vec::new();
        for p in [MPfx::v4([192, 0, 2, 0], 24), MPfx::v4([0, 0, 0, 0], 0), MPfx::v4([192, 0, 2, 1], 32), MPfx::v6(0x2001_0db8_0001_0000, 0, 48), MPfx::v6(0x2001_0db8_0000_0000, 1, 128), MPfx::v6(0, 0, 0)] {
            let w = p.width() as u8;
            let mut mls = vec![None, Some(p.len), Some(w)]; if p.len < w { mls.push(Some(p.len + 1)) }
            mls.dedup();
            for ml in mls { for a in asn3 { for c in [None, Some(""), Some(TRICKY)] { v.push(MPA { p, maxlen: ml, asn: a, comment: c }) } } }
        }
        v
    };
    let pa_entries: Vec<MPA> = {
        let mut v = pa_entries;
        for p in unusual_v6().into_iter().chain(long_text_prefixes()) {
            let w = p.width() as u8;
            let mut mls = vec![None, Some(p.len), Some(w)]; if p.len < w { mls.push(Some(p.len + 1)) }
            mls.dedup();
            for ml in mls { for c in [None, Some(TRICKY)] { v.push(MPA { p, maxlen: ml, asn: 64496, comment: c }) } }
        }
        v
    };
    let ba_entries: Vec<MBA> = {
        let mut v = Vec::new();
        for a in asn3 { for s in [K1, K0, KF] { for n in [0usize, 1, 2, 3, 4, 91] { for c in [None, Some(TRICKY)] {
            let info: Vec<u8> = (0..n).map(|i| if n == 91 { (i * 37 + 0x30) as u8 } else { [0xfb, 0xff, 0x3e, 0x00][i] }).collect();
            v.push(MBA { asn: a, ski: s, info, comment: c })
        }}}}
        v
    };
    let aa_entries: Vec<MAA> = {
        let mut v = Vec::new();
        for cu in asn3 { for pl in lists(&[0u32, 64497, u32::MAX], 3) { for c in [None, Some(TRICKY)] { v.push(MAA { customer: cu, providers: pl.clone(), comment: c }) } } }
        v
    };

    let sp = ctx.space("json.sections",
        "for each of the six sections: every list of <= 2 entries over that section's full entry alphabet (all other sections empty, ASPA sections absent unless it is the section under test): to_string / to_string_pretty / to_writer / to_writer_pretty parsed back by from_str / from_reader must equal the file; iter_payload of the file and of the re-parsed file must yield exactly the assertion fields (prefix, max-length incl. absent vs present, AS; SKI, AS, key octets; customer, providers in order) in section order, and every accessor of each yielded item (is_v4, payload_type, to_origin / as_router_key / as_aspa, Aspa::key, ProviderAsns::asn_count / len / is_empty, RouterKeyInfo::into_bytes / as_ref) must agree with those fields; non-trivial = files with at least one entry");
    space_body(&ctx, &sp.clone(), || {
        let mut files: Vec<MFile> = Vec::new();
        for l in lists(&pf_entries, 2) { files.push(MFile { pf: l, ..Default::default() }) }
        for l in lists(&bf_entries, 2) { files.push(MFile { bf: l, ..Default::default() }) }
        for l in lists(&af_entries, 2) { files.push(MFile { af: Some(l), ..Default::default() }) }
        for l in lists(&pa_entries, 2) { files.push(MFile { pa: l, ..Default::default() }) }
        for l in lists(&ba_entries, 2) { files.push(MFile { ba: l, ..Default::default() }) }
        for l in lists(&aa_entries, 2) { files.push(MFile { aa: Some(l), ..Default::default() }) }
        files.par_chunks(64).for_each(|ch| {
            unit(|| format!("files starting with {}", ch[0].text()), || {
            let mut lf = Lf::new(); let mut oc = Oc::new(); let (mut ev, mut nt) = (0u64, 0u64);
            for m in ch {
                ev += check_file(&mut lf, &mut oc, m);
                if !(m.pf.is_empty() && m.bf.is_empty() && m.pa.is_empty() && m.ba.is_empty() && m.af.as_ref().map_or(true, |x| x.is_empty()) && m.aa.as_ref().map_or(true, |x| x.is_empty())) { nt += 1 }
            }
            sp.evals(ev); sp.nontrivial(nt); sp.merge_outcomes(&oc);
            });
        });
        sp.set("entry_alphabet_sizes", serde_json::json!({"prefixFilters": pf_entries.len(), "bgpsecFilters": bf_entries.len(), "aspaFilters": af_entries.len(),
            "prefixAssertions": pa_entries.len(), "bgpsecAssertions": ba_entries.len(), "aspaAssertions": aa_entries.len()}));
        sp.set("files", serde_json::json!(files.len()));
        sp.sample_str(|| shown(|| files[files.len() / 2].lib().to_string()));
        sp.sample_str(|| files[files.len() - 1].text());
        sp.done(true, "all lists of <= 2 entries per section over the full entry alphabets");
    });

    // ------------------------------------------------------------------ (4)
    let sp = ctx.space("json.cross_sections",
        "all combinations of per-section menus {[], [e1], [e1,e2], [e2]} for the four always-present sections and {absent, [], [e1], [e1,e2]} for the two ASPA sections (4^4 x 4^2 files): same round-trip and iter_payload oracles; non-trivial = files with entries in at least two sections");
    space_body(&ctx, &sp.clone(), || {
        fn menu<T: Clone>(a: &T, b: &T) -> Vec<Vec<T>> { vec![vec![], vec![a.clone()], vec![a.clone(), b.clone()], vec![b.clone()]] }
        let m_pf = menu(&pf_entries[27], &pf_entries[0]); // {v4 /24, asn 0x.., tricky comment} and the empty filter
        let m_bf = menu(&bf_entries[7], &bf_entries[0]);
        let m_pa = menu(&pa_entries[5], &pa_entries[pa_entries.len() - 4]);
        let m_ba = menu(&ba_entries[11], &ba_entries[0]);
        let m_af: Vec<Option<Vec<MAF>>> = vec![None, Some(vec![]), Some(vec![af_entries[11].clone()]), Some(vec![af_entries[11].clone(), af_entries[0].clone()])];
        let m_aa: Vec<Option<Vec<MAA>>> = vec![None, Some(vec![]), Some(vec![aa_entries[9].clone()]), Some(vec![aa_entries[9].clone(), aa_entries[0].clone()])];
        let mut files = Vec::new();
        for a in &m_pf { for b in &m_bf { for c in &m_af { for d in &m_pa { for e in &m_ba { for f in &m_aa {
            files.push(MFile { pf: a.clone(), bf: b.clone(), af: c.clone(), pa: d.clone(), ba: e.clone(), aa: f.clone() })
        }}}}}}
        files.par_chunks(64).for_each(|ch| {
            unit(|| format!("files starting with {}", ch[0].text()), || {
            let mut lf = Lf::new(); let mut oc = Oc::new(); let (mut ev, mut nt) = (0u64, 0u64);
            for m in ch {
                ev += check_file(&mut lf, &mut oc, m);
                let filled = [!m.pf.is_empty(), !m.bf.is_empty(), m.af.as_ref().map_or(false, |x| !x.is_empty()), !m.pa.is_empty(), !m.ba.is_empty(), m.aa.as_ref().map_or(false, |x| !x.is_empty())];
                if filled.iter().filter(|x| **x).count() >= 2 { nt += 1 }
            }
            sp.evals(ev); sp.nontrivial(nt); sp.merge_outcomes(&oc);
            });
        });
        sp.sample_str(|| shown(|| files[files.len() - 1].lib().to_string()));
        sp.done(true, &format!("all {} menu combinations", files.len()));
    });

    // ------------------------------------------------------------------ (4b)
    let sp = ctx.space("json.writers",
        "the writer as a dimension: to_writer and to_writer_pretty of (A) seven files from 150 octets to > 100 KiB into every sink of the menu, (B) every single-entry file of every section into the sinks {1 octet per call, 7 per call, first call 1 octet, exact slice, slice one short}; sinks: Vec, at most k octets per call (k = 1,2,7,64,4096), first call takes 1 octet, Cursor over a slice exactly large enough / 10 larger / 1 and 17 too short / empty, ErrorKind::Interrupted once (then everything, then 7 per call), BufWriter (capacity 8192,16,1,65536) around a k-per-call sink, a sink that breaks after 0 / 10 octets. Oracle: if the call returns Ok the octets that arrived must parse back, through readers returning 1, 7 and 4096 octets per call, to an equal file; an error is acceptable only from a sink that cannot take the document; non-trivial = cases whose sink does not take the whole document in one call");
    space_body(&ctx, &sp.clone(), || {
        let cyc = |n: usize| -> Vec<MPA> { (0..n).map(|i| pa_entries[i % pa_entries.len()].clone()).collect() };
        let big_ba: Vec<MBA> = ba_entries.iter().filter(|b| b.info.len() == 91).take(20).cloned().collect();
        let named: Vec<(&'static str, MFile)> = vec![
            ("empty", MFile::default()),
            ("one-prefix-filter", MFile { pf: vec![pf_entries[27].clone()], ..Default::default() }),
            ("one-of-each", MFile { pf: vec![pf_entries[27].clone()], bf: vec![bf_entries[7].clone()], af: Some(vec![af_entries[11].clone()]), pa: vec![pa_entries[5].clone()], ba: vec![ba_entries[11].clone()], aa: Some(vec![aa_entries[9].clone()]) }),
            ("medium", MFile { pf: pf_entries.iter().take(12).cloned().collect(), bf: bf_entries.iter().take(6).cloned().collect(), af: Some(af_entries.iter().take(4).cloned().collect()), pa: cyc(10), ba: vec![], aa: None }),
            ("over-8KiB", MFile { pf: vec![], bf: vec![], af: None, pa: cyc(60), ba: big_ba.clone(), aa: Some(aa_entries.iter().take(10).cloned().collect()) }),
            ("over-64KiB", MFile { pf: pf_entries.clone(), bf: bf_entries.clone(), af: Some(af_entries.clone()), pa: cyc(600), ba: big_ba.clone(), aa: Some(aa_entries.clone()) }),
            ("over-100KiB-assertions-only", MFile { pa: cyc(1500), ..Default::default() }),
        ];
        let sinks = Sink::all();
        let mut work: Vec<(usize, Sink, bool)> = Vec::new();
        for i in 0..named.len() { for &s in &sinks { for pretty in [false, true] { work.push((i, s, pretty)) } } }
        let libs: Vec<SlurmFile> = named.iter().map(|(_, m)| m.lib()).collect();
        let sizes: Vec<usize> = libs.iter().map(|f| guard(|| f.to_string().len()).unwrap_or(0)).collect();
        work.par_iter().for_each(|&(i, sink, pretty)| {
            unit(|| format!("file={} sink={:?} pretty={pretty}", named[i].0, sink), || {
            let mut lf = Lf::new(); let mut oc = Oc::new();
            let ev = check_sink(&mut lf, &mut oc, &|| format!("{} ({} octets compact)", named[i].0, sizes[i]), &libs[i], sink, pretty);
            sp.evals(ev); if sink != Sink::Vec && sink != Sink::SliceExact && !matches!(sink, Sink::SlicePlus(_)) { sp.nontrivial(1) }
            sp.merge_outcomes(&oc);
            });
        });
        // SlurmFile::default() itself (version 2, no ASPA sections)
        {
            let mut lf = Lf::new(); let mut oc = Oc::new(); let d = SlurmFile::default();
            for &s in &sinks { for pretty in [false, true] { sp.evals(check_sink(&mut lf, &mut oc, &|| "SlurmFile::default()".to_string(), &d, s, pretty)); sp.nontrivial(1) } }
            sp.merge_outcomes(&oc);
        }
        // (B) every single-entry file
        let mut singles: Vec<MFile> = Vec::new();
        for e in &pf_entries { singles.push(MFile { pf: vec![e.clone()], ..Default::default() }) }
        for e in &bf_entries { singles.push(MFile { bf: vec![e.clone()], ..Default::default() }) }
        for e in &af_entries { singles.push(MFile { af: Some(vec![e.clone()]), ..Default::default() }) }
        for e in &pa_entries { singles.push(MFile { pa: vec![e.clone()], ..Default::default() }) }
        for e in &ba_entries { singles.push(MFile { ba: vec![e.clone()], ..Default::default() }) }
        for e in &aa_entries { singles.push(MFile { aa: Some(vec![e.clone()]), ..Default::default() }) }
        let few = [Sink::Chunk(1), Sink::Chunk(7), Sink::FirstOne, Sink::SliceExact, Sink::SliceShort(1)];
        singles.par_chunks(16).for_each(|ch| {
            unit(|| format!("single-entry files starting with {}", ch[0].text()), || {
            let mut lf = Lf::new(); let mut oc = Oc::new(); let (mut ev, mut nt) = (0u64, 0u64);
            for m in ch {
                let f = m.lib();
                for s in few { for pretty in [false, true] { ev += check_sink(&mut lf, &mut oc, &|| m.text(), &f, s, pretty); if s != Sink::SliceExact { nt += 1 } } }
            }
            sp.evals(ev); sp.nontrivial(nt); sp.merge_outcomes(&oc);
            });
        });
        sp.set("file_sizes_compact", serde_json::json!(named.iter().zip(sizes.iter()).map(|((n, _), z)| (n.to_string(), *z)).collect::<BTreeMap<_, _>>()));
        sp.set("sinks", serde_json::json!(sinks.iter().map(|s| format!("{s:?}")).collect::<Vec<_>>()));
        sp.set("single_entry_files", serde_json::json!(singles.len()));
        sp.sample_str(|| format!("file=over-8KiB form=to_writer sink={:?}", Sink::Chunk(7)));
        sp.done(true, &format!("{} files x {} sinks x 2 forms + {} single-entry files x {} sinks x 2 forms", named.len() + 1, sinks.len(), singles.len(), few.len()));
    });

    // ------------------------------------------------------------------ (4c)
    let sp = ctx.space("json.scale",
        "every quantity of a file swept through 0..=40, the neighbourhoods k-1,k,k+1 of the powers of two from 64 up to its maximum, and the maximum with its neighbours: providers per ASPA assertion (.. 16379, 16380 = ProviderAsns::MAX_COUNT; 16381, 16384, 16385 cannot be built: the hand-written text is offered to the parser and only counted), router key octets (quick to 65537, thorough to 2^20+1), entries per section for each of the six sections (0..=40, 63..65, 127..129, 255..257, 1023..1025; thorough to 16385), comment length in characters (ASCII, two-octet, all-quotes; quick to 65537, thorough to 2^20+1); same oracles as the small files: four serialise/parse pairings equal, iter_payload exact. Filter lists of every such size with the only matching filter FIRST, in the MIDDLE, LAST or absent must drop / keep the item (reference predicate); non-trivial = every case with a count above 2");
    space_body(&ctx, &sp.clone(), || {
        let big = if thorough { (1usize << 20) + 1 } else { 65537 };
        let n_entries: Vec<usize> = scale_counts(if thorough { 16385 } else { 1025 });
        #[derive(Clone)]
        enum Case { Providers(usize), KeyInfo(usize), Entries(usize, usize), Comment(usize, usize), Drop(usize, usize, usize) }
        let mut cases: Vec<Case> = Vec::new();
        for n in scale_counts(16380).into_iter().chain([16381, 16384, 16385]) { cases.push(Case::Providers(n)) }
        for n in scale_counts(big) { cases.push(Case::KeyInfo(n)) }
        for sec in 0..6 { for &n in &n_entries { cases.push(Case::Entries(sec, n)) } }
        for kind in 0..3 { for n in scale_counts(big) { cases.push(Case::Comment(kind, n)) } }
        for kind in 0..3 { for &n in &n_entries { if n > 0 { for pos in 0..4 { cases.push(Case::Drop(kind, n, pos)) } } } }
        let provs = |n: usize| -> Vec<u32> { (0..n).map(|i| if i + 1 == n { u32::MAX } else { (i as u32).wrapping_mul(7).wrapping_add(1) }).collect() };
        let (pf_entries, bf_entries, af_entries, pa_entries, ba_entries, aa_entries) = (&pf_entries, &bf_entries, &af_entries, &pa_entries, &ba_entries, &aa_entries);
        cases.par_iter().for_each(|case| {
            let mut lf = Lf::new(); let mut oc = Oc::new(); let mut ev = 0u64;
            let desc: String = match case { Case::Providers(n) => format!("one ASPA assertion with {n} providers"), Case::KeyInfo(n) => format!("one BGPsec assertion with a {n}-octet key"),
                Case::Entries(sec, n) => format!("{n} entries in section {}", ["prefixFilters", "bgpsecFilters", "aspaFilters", "prefixAssertions", "bgpsecAssertions", "aspaAssertions"][*sec]),
                Case::Comment(kind, n) => format!("comments of {n} characters ({})", ["ASCII", "two-octet characters", "quotes and backslashes"][*kind]),
                Case::Drop(kind, n, pos) => format!("{n} {} filters, the matching one {}", ["prefix", "BGPsec", "ASPA"][*kind], ["first", "in the middle", "last", "absent"][*pos]) };
            let size = match case { Case::Providers(n) | Case::KeyInfo(n) | Case::Entries(_, n) | Case::Comment(_, n) | Case::Drop(_, n, _) => *n };
            unit(|| desc.clone(), || match case {
                Case::Providers(n) => {
                    let m = MFile { aa: Some(vec![MAA { customer: 64496, providers: provs(*n), comment: None }]), ..Default::default() };
                    let buildable = guard(|| ProviderAsns::try_from_iter(provs(*n).into_iter().map(Asn::from_u32)).is_ok());
                    match &buildable {
                        Err(p) => lf.fail("C15.json.no_panic", || desc.clone(), || p.clone()),
                        Ok(true) => { ev += check_file_named(&mut lf, &mut oc, &m, &|| desc.clone()); bump(&mut oc, "built") }
                        Ok(false) => bump(&mut oc, "cannot-be-built"),
                    }
                    // the same file as hand-written text
                    let text = m.json(2, false);
                    ev += 1;
                    match guard(|| SlurmFile::from_str(&text).ok().map(|f| {
                        let back = SlurmFile::from_str(&f.to_string()).map(|g| g == f).map_err(|e| e.to_string());
                        let pays: Vec<MPay> = f.assertions.iter_payload().map(|p| fields_of(&p)).collect();
                        (back, pays)
                    })) {
                        Err(p) => lf.fail("C15.json.no_panic", || format!("{desc} as hand-written text"), || p.clone()),
                        Ok(None) => bump(&mut oc, if buildable == Ok(true) { "text-rejected-though-buildable" } else { "text-rejected" }),
                        Ok(Some((back, pays))) => {
                            bump(&mut oc, "text-accepted");
                            if back != Ok(true) { lf.fail("C15.json.roundtrip", || format!("{desc} as hand-written text"), || format!("the parsed file does not survive to_string -> from_str: {:?}", back)) }
                            if pays != m.payloads() { lf.fail("C15.assertions.payload", || format!("{desc} as hand-written text"), || format!("iter_payload yields {} items, first with {} providers", pays.len(), match pays.first() { Some(MPay::Aspa { providers, .. }) => providers.len(), _ => 0 })) }
                        }
                    }
                }
                Case::KeyInfo(n) => {
                    let m = MFile { ba: vec![MBA { asn: 64496, ski: K1, info: (0..*n).map(|i| (i * 131 + 7) as u8).collect(), comment: None }], ..Default::default() };
                    ev += check_file_named(&mut lf, &mut oc, &m, &|| desc.clone());
                }
                Case::Entries(sec, n) => {
                    let cyc = |len: usize, i: usize| (i * 7 + i / len) % len;
                    let mut m = MFile::default();
                    match sec {
                        0 => m.pf = (0..*n).map(|i| pf_entries[cyc(pf_entries.len(), i)].clone()).collect(),
                        1 => m.bf = (0..*n).map(|i| bf_entries[cyc(bf_entries.len(), i)].clone()).collect(),
                        2 => m.af = Some((0..*n).map(|i| af_entries[cyc(af_entries.len(), i)].clone()).collect()),
                        3 => m.pa = (0..*n).map(|i| pa_entries[cyc(pa_entries.len(), i)].clone()).collect(),
                        4 => m.ba = (0..*n).map(|i| ba_entries[cyc(ba_entries.len(), i)].clone()).collect(),
                        _ => m.aa = Some((0..*n).map(|i| aa_entries[cyc(aa_entries.len(), i)].clone()).collect()),
                    }
                    ev += check_file_named(&mut lf, &mut oc, &m, &|| desc.clone());
                }
                Case::Comment(kind, n) => {
                    let c: Cm = Some(leak(match kind { 0 => "a".repeat(*n), 1 => "\u{e9}".repeat(*n), _ => "\"\\".repeat(*n / 2) + &"\"".repeat(*n % 2) }));
                    let m = MFile { pf: vec![MPF { prefix: None, asn: Some(1), comment: c }], bf: vec![MBF { ski: None, asn: None, comment: c }], af: Some(vec![MAF { customer: None, comment: c }]),
                        pa: vec![MPA { p: MPfx::v4([192, 0, 2, 0], 24), maxlen: None, asn: 1, comment: c }], ba: vec![MBA { asn: 1, ski: K1, info: vec![1], comment: c }], aa: Some(vec![MAA { customer: 1, providers: vec![2], comment: c }]) };
                    ev += check_file_named(&mut lf, &mut oc, &m, &|| desc.clone());
                }
                Case::Drop(kind, n, pos) => {
                    let hit = match pos { 0 => Some(0), 1 => Some(n / 2), 2 => Some(n - 1), _ => None };
                    let mut m = MFile::default();
                    let items: Vec<MPay> = match kind {
                        0 => { m.pf = (0..*n).map(|i| if Some(i) == hit { MPF { prefix: Some(MPfx::v4([192, 0, 0, 0], 16)), asn: None, comment: None } }
                                   else { MPF { prefix: Some(MPfx::v4([10, (i >> 8) as u8, i as u8, 0], 24)), asn: if i % 3 == 0 { Some(64000 + (i % 100) as u32) } else { None }, comment: None } }).collect();
                               vec![MPay::Origin { p: MPfx::v4([192, 0, 2, 0], 24), maxlen: None, asn: 64496 }, MPay::Origin { p: MPfx::v4([198, 51, 100, 0], 24), maxlen: None, asn: 64496 },
                                    MPay::Origin { p: MPfx::v4([10, 0, 0, 0], 24), maxlen: Some(25), asn: 1 }, MPay::Origin { p: MPfx::v4([10, ((*n - 1) >> 8) as u8, (*n - 1) as u8, 0], 24), maxlen: None, asn: 64000 + ((*n - 1) % 100) as u32 }] }
                        1 => { m.bf = (0..*n).map(|i| if Some(i) == hit { MBF { ski: Some(K1), asn: None, comment: None } } else { let mut k = K2; k[0] = (i >> 8) as u8; k[1] = i as u8; k[2] = 0x55; MBF { ski: Some(k), asn: None, comment: None } }).collect();
                               vec![MPay::Key { ski: K1, asn: 64496, info: vec![1] }, MPay::Key { ski: K0, asn: 64496, info: vec![1] }, { let mut k = K2; k[0] = ((*n - 1) >> 8) as u8; k[1] = (*n - 1) as u8; k[2] = 0x55; MPay::Key { ski: k, asn: 1, info: vec![] } }] }
                        _ => { m.af = Some((0..*n).map(|i| MAF { customer: Some(if Some(i) == hit { 64496 } else { 100_000 + i as u32 }), comment: None }).collect());
                               vec![MPay::Aspa { customer: 64496, providers: vec![100_000] }, MPay::Aspa { customer: 99_999, providers: vec![64496] }, MPay::Aspa { customer: 100_000 + (*n - 1) as u32, providers: vec![] }] }
                    };
                    let file = m.lib();
                    let reparsed = if *n <= 1025 { SlurmFile::from_str(&file.to_string()).ok() } else { None };
                    for it in &items {
                        let want = model_drop(&m.pf, &m.bf, m.af.as_deref(), it);
                        let lp = it.lib();
                        let oracle = match it { MPay::Origin { .. } => "C15.drop.origin", MPay::Key { .. } => "C15.drop.router_key", MPay::Aspa { .. } => "C15.drop.aspa" };
                        ev += 2;
                        match guard(|| (file.drop_payload(&lp), file.filters.drop_payload(&lp), reparsed.as_ref().map(|f| f.drop_payload(&lp)))) {
                            Err(p) => lf.fail("C15.drop.no_panic", || format!("{desc} payload={}", it.text()), || p.clone()),
                            Ok((a, b, c)) => if a != want || b != want || c.map_or(false, |c| c != want) {
                                lf.fail(oracle, || format!("{desc} payload={}", it.text()), || format!("SlurmFile::drop_payload={a} ValidationOutputFilters::drop_payload={b} after JSON={:?}; the reference predicate says {want}", c))
                            }
                        }
                        bump(&mut oc, if want { "dropped" } else { "kept" });
                    }
                }
            });
            sp.evals(ev); if size > 2 { sp.nontrivial(1) } sp.merge_outcomes(&oc);
        });
        sp.set("counts_providers", serde_json::json!(scale_counts(16380)));
        sp.set("counts_entries", serde_json::json!(n_entries));
        sp.set("counts_octets_and_characters", serde_json::json!(scale_counts(big)));
        sp.sample_str(|| "one ASPA assertion with 16380 providers".to_string());
    });
    sp.done(true, "all listed counts for providers, key octets, entries per section, comment lengths, and filter lists with the match first / middle / last / absent");

    // ------------------------------------------------------------------ (4c')
    total_size(&ctx, thorough);

    // ------------------------------------------------------------------ (4d)
    let sp = ctx.space("json.member_orders",
        "the order of the members of a JSON object as a call parameter: for every single-entry file of every section, the history files and a file with one entry of each kind, as hand-written text and as the library's own to_string output: every object of the document gets its members in every order (all permutations up to 4 members; sorted, reversed and every rotation beyond), one object at a time, plus all objects at once sorted by key (what serde_json::Value and jq -S produce), sorted descending, reversed, rotated; the same for texts carrying one invalid member (max length below the prefix length / above the family maximum / negative / a string, host bits set, AS number out of range, SKI of 26 characters, bad Base64, provider out of range, an unknown member, a duplicate member): verdict and parsed file must be those of the original order; non-trivial = every reordered text");
    space_body(&ctx, &sp.clone(), || {
        let mut docs: Vec<(String, String)> = Vec::new();
        let mut singles: Vec<MFile> = Vec::new();
        for e in &pf_entries { singles.push(MFile { pf: vec![e.clone()], ..Default::default() }) }
        for e in &bf_entries { singles.push(MFile { bf: vec![e.clone()], ..Default::default() }) }
        for e in &af_entries { singles.push(MFile { af: Some(vec![e.clone()]), ..Default::default() }) }
        for e in &pa_entries { singles.push(MFile { pa: vec![e.clone()], ..Default::default() }) }
        for e in &ba_entries { singles.push(MFile { ba: vec![e.clone()], ..Default::default() }) }
        for e in &aa_entries { singles.push(MFile { aa: Some(vec![e.clone()]), ..Default::default() }) }
        for (_, m) in history_files() { singles.push(m) }
        for m in &singles {
            docs.push((format!("hand-written text of {}", m.text()), m.json(2, false)));
            if let Ok(t) = guard(|| m.lib().to_string()) { docs.push((format!("to_string of {}", m.text()), t)) }
        }
        let all = history_files()[3].1.json(2, false);
        for (from, tos) in [("\"maxPrefixLength\":26", vec!["\"maxPrefixLength\":23", "\"maxPrefixLength\":33", "\"maxPrefixLength\":129", "\"maxPrefixLength\":256", "\"maxPrefixLength\":-1", "\"maxPrefixLength\":\"26\"", "\"maxPrefixLength\":26,\"foo\":1", "\"maxPrefixLength\":26,\"maxPrefixLength\":26"]),
            ("\"prefix\":\"192.0.2.0/24\"", vec!["\"prefix\":\"192.0.2.1/24\"", "\"prefix\":\"192.0.2.0/33\"", "\"prefix\":\"x\"", "\"prefix\":null"]),
            ("\"asn\":64496", vec!["\"asn\":4294967296", "\"asn\":-1", "\"asn\":\"1\"", "\"asn\":64496,\"asn\":64496"]),
            ("\"SKI\":\"PI8aIgURlvsA_36AAQIDBKq7zN0\"", vec!["\"SKI\":\"PI8aIgURlvsA_36AAQIDBKq7zN\"", "\"SKI\":\"PI8aIgURlvsA_36AAQIDBKq7zN0A\"", "\"SKI\":null", "\"SKI\":\"PI8aIgURlvsA_36AAQIDBKq7zN0\",\"bar\":[]"]),
            ("\"routerPublicKey\":\"MFkwEw\"", vec!["\"routerPublicKey\":\"@@\"", "\"routerPublicKey\":5"]),
            ("\"providerAsns\":[]", vec!["\"providerAsns\":[4294967296]", "\"providerAsns\":\"1\"", "\"providerAsns\":[],\"x\":0"]),
            ("\"customerAsn\":1", vec!["\"customerAsn\":\"x\"", "\"customerAsn\":4294967296"]),
            ("\"slurmVersion\":2", vec!["\"slurmVersion\":3", "\"slurmVersion\":\"2\"", "\"slurmVersion\":2,\"extra\":{}"])] {
            if !all.contains(from) { ctx.machinery_error(format!("member_orders: pattern {from} not in the base text")); continue }
            for to in tos { docs.push((format!("base file with {to}"), all.replace(from, to))) }
        }
        docs.par_chunks(8).for_each(|ch| {
            unit(|| format!("member orders of {}", clip(&ch[0].0)), || {
                let mut lf = Lf::new(); let mut oc = Oc::new(); let mut n = 0u64;
                for (name, text) in ch { n += check_member_orders(&mut lf, &mut oc, text, &|| name.clone()) }
                sp.evals(n); sp.nontrivial(n); sp.merge_outcomes(&oc);
            });
        });
        sp.set("documents", serde_json::json!(docs.len()));
        sp.sample_str(|| "{\"maxPrefixLength\":26,\"asn\":64496,\"prefix\":\"192.0.2.0/24\"} must parse like {\"prefix\":...,\"asn\":...,\"maxPrefixLength\":26}".to_string());
    });
    sp.done(true, "all listed documents x every object x every member order");

    // ------------------------------------------------------------------ (4e)
    let subj = subjects();
    let baseline: Vec<String> = subj.iter().map(|(_, a)| { let a = a.clone(); on_fresh_thread(move || observe(&a)) }).collect();
    let sp = ctx.space("history.independent",
        "sequences instead of single evaluations: for every predecessor p (to_writer and to_writer_pretty of files with and without key identifiers into a fixed slice of k octets, into a sink that breaks after k octets and into a sink that panics after k octets, for EVERY k up to the length of the document; from_str of a text cut at every k and from_reader from a source that breaks after every k; a large successful serialisation; every subject) a dedicated OS thread runs p, then all subjects (round trips through to_string / to_string_pretty / to_writer / from_str / from_reader of five files, parses of hand-written valid and invalid texts, drop decisions, Base64 and serde_json::Value routes) in order and again in reverse order; every observation must equal that of the same subject evaluated first thing on its own fresh thread; thorough: more files and all ordered pairs of a 50-element selection; non-trivial = every (sequence, subject) evaluation");
    space_body(&ctx, &sp.clone(), || {
        let preds = predecessors(thorough);
        let run_seq = |names: Vec<String>, acts: Vec<Act>| {
            let subj2: Vec<(String, Act)> = subj.clone();
            let seen: Vec<(usize, String)> = on_fresh_thread(move || {
                for a in &acts { let _ = observe(a); }
                let mut out = Vec::new();
                for (i, (_, a)) in subj2.iter().enumerate() { out.push((i, observe(a))) }
                for (i, (_, a)) in subj2.iter().enumerate().rev() { out.push((i, observe(a))) }
                out
            });
            let mut lf = Lf::new(); let mut same = 0u64;
            for (k, (i, o)) in seen.iter().enumerate() {
                if *o == baseline[*i] { same += 1 } else {
                    lf.fail("C15.history.independent", || format!("after [{}] subject [{}] ({} pass)", names.join("; "), subj[*i].0, if k < subj.len() { "first" } else { "reverse" }),
                        || format!("observed {} but on a fresh thread the same call gives {}", clip(o), clip(&baseline[*i])));
                }
            }
            sp.evals(seen.len() as u64); sp.nontrivial(seen.len() as u64); sp.traces(1);
            sp.outcomes_n("same-as-fresh-thread", same); sp.outcomes_n("differs-from-fresh-thread", seen.len() as u64 - same);
        };
        preds.par_iter().for_each(|(n, a)| run_seq(vec![n.clone()], vec![a.clone()]));
        let mut bound = format!("{} predecessors x {} subjects x 2 passes", preds.len(), subj.len());
        if thorough {
            let sel: Vec<&(String, Act)> = preds.iter().step_by((preds.len() / 50).max(1)).collect();
            let pairs: Vec<(usize, usize)> = (0..sel.len()).flat_map(|i| (0..sel.len()).map(move |j| (i, j))).collect();
            pairs.par_iter().for_each(|&(i, j)| run_seq(vec![sel[i].0.clone(), sel[j].0.clone()], vec![sel[i].1.clone(), sel[j].1.clone()]));
            bound.push_str(&format!(" + all {} ordered pairs of {} predecessors", pairs.len(), sel.len()));
        }
        sp.outcome("baseline");
        sp.set("subjects", serde_json::json!(subj.iter().map(|x| x.0.clone()).collect::<Vec<_>>()));
        sp.set("predecessors", serde_json::json!(preds.len()));
        sp.set("bound", serde_json::json!(bound));
        sp.sample_str(|| format!("after [{}] subject [{}]", preds[40].0, subj[0].0));
    });
    sp.done(true, "every predecessor x all subjects x 2 passes (see 'bound')");

    // ------------------------------------------------------------------ (4f)
    let sp = ctx.space("handed_out.iter_payload",
        "the iterator iter_payload() hands out: on a file with 2 + 2 + 2 assertions (and one with 3 + 0 + 1, one empty) every call sequence of length <= 3 over {next, nth(1), size_hint, by_ref().take(2).count(), clone-free peek via size_hint, drop} followed by collecting the rest: the items seen are the reference items in order with exactly the skipped ones missing, size_hint brackets what is left; two iterators over the same file advance independently; non-trivial = sequences that consume at least one item");
    space_body(&ctx, &sp.clone(), || {
        let pa = |i: u8| MPA { p: MPfx::v4([10, i, 0, 0], 16), maxlen: Some(20), asn: i as u32, comment: None };
        let ba = |i: u8| MBA { asn: i as u32, ski: { let mut k = K1; k[0] = i; k }, info: vec![i; 3], comment: None };
        let aa = |i: u8| MAA { customer: i as u32, providers: vec![i as u32 + 1], comment: None };
        let files = [MFile { pa: vec![pa(1), pa(2)], ba: vec![ba(3), ba(4)], aa: Some(vec![aa(5), aa(6)]), ..Default::default() }, MFile { pa: vec![pa(1), pa(2), pa(3)], aa: Some(vec![aa(9)]), ..Default::default() }, MFile::default()];
        let mut lf = Lf::new();
        for m in &files {
            let f = m.lib(); let reference = m.payloads();
            for len in 0..=3usize { for code in 0..4usize.pow(len as u32) {
                let ops: Vec<usize> = (0..len).map(|i| code / 4usize.pow(i as u32) % 4).collect();
                sp.eval(); if ops.iter().any(|o| *o != 2) { sp.nontrivial(1) }
                let wit = || format!("assertions={}+{}+{} ops={:?}", m.pa.len(), m.ba.len(), m.aa.as_ref().map_or(0, |x| x.len()), ops.iter().map(|o| ["next", "nth(1)", "size_hint", "by_ref().take(2).count()"][*o]).collect::<Vec<_>>());
                let r = guard(|| {
                    let mut it = f.assertions.iter_payload(); let mut other = f.assertions.iter_payload();
                    let mut pos = 0usize; let mut seen: Vec<(usize, MPay)> = Vec::new(); let mut bad: Option<String> = None;
                    for &o in &ops {
                        match o {
                            0 => { match it.next() { Some(x) => { seen.push((pos, fields_of(&x))); pos += 1 } None => if pos < reference.len() { bad = Some(format!("next() gave None at position {pos}")) } } }
                            1 => { match it.nth(1) { Some(x) => { seen.push((pos + 1, fields_of(&x))); pos += 2 } None => { if pos + 1 < reference.len() { bad = Some(format!("nth(1) gave None at position {pos}")) } pos = reference.len() } } }
                            2 => { let (lo, hi) = it.size_hint(); let left = reference.len() - pos.min(reference.len()); if lo > left || hi.map_or(false, |h| h < left) { bad = Some(format!("size_hint ({lo}, {hi:?}) with {left} items left")) } }
                            _ => { let c = it.by_ref().take(2).count(); let left = reference.len() - pos.min(reference.len()); if c != left.min(2) { bad = Some(format!("take(2).count() = {c} with {left} left")) } pos += c }
                        }
                    }
                    let rest: Vec<MPay> = it.map(|x| fields_of(&x)).collect();
                    let all_other: Vec<MPay> = other.by_ref().map(|x| fields_of(&x)).collect();
                    (seen, pos.min(reference.len()), rest, all_other, bad)
                });
                match r {
                    Err(p) => lf.fail("C15.handed_out.iter_payload", wit, || p.clone()),
                    Ok((seen, pos, rest, all_other, bad)) => {
                        if let Some(b) = bad { lf.fail("C15.handed_out.iter_payload", wit, || b.clone()) }
                        if seen.iter().any(|(i, x)| reference.get(*i) != Some(x)) || rest[..] != reference[pos..] || all_other != reference { lf.fail("C15.handed_out.iter_payload", wit, || format!("items seen {:?}, rest {:?}; the file's assertions are {:?}", seen.iter().map(|x| x.1.text()).collect::<Vec<_>>(), rest.iter().map(|x| x.text()).collect::<Vec<_>>(), reference.iter().map(|x| x.text()).collect::<Vec<_>>())) }
                        sp.outcome(if rest.is_empty() { "exhausted" } else { "items-left" });
                    }
                }
            }}
        }
    });
    sp.done(true, "3 files x all 85 call sequences of length <= 3");

    // ------------------------------------------------------------------ (4g)
    let sp = ctx.space("ownership.key_info",
        "who else holds the buffer: router key octets of 0, 1, 4, 91 and 300 octets handed to Base64KeyInfo / RouterKeyInfo as a Vec, as Bytes that are the sole owner, with a live clone, with a clone dropped just before, as a view into a larger Bytes, and from_static; the assertion built from each must serialise to the same text, parse back equal, yield the same payload octets (as_slice, AsRef, Deref, into_bytes, Display, Debug agree with a freshly parsed twin) and leave the clone / the surrounding buffer unchanged; Display of the key with width, alignment, fill, zero, sign and alternate flags must still read back; non-trivial = every (length, holder) pair");
    space_body(&ctx, &sp.clone(), || {
        static BIG: [u8; 400] = { let mut a = [0u8; 400]; let mut i = 0; while i < 400 { a[i] = (i * 37 % 251) as u8; i += 1 } a };
        let mut lf = Lf::new();
        for len in [0usize, 1, 4, 91, 300] {
            let want: Vec<u8> = BIG[50..50 + len].to_vec();
            let twin_text = guard(|| { let a = BgpsecAssertion::new(Asn::from_u32(1), KeyIdentifier::from(K1), Base64KeyInfo::try_from(want.clone()).unwrap(), None); serde_json::to_string(&a).unwrap() });
            for holder in 0..6usize {
                sp.eval(); sp.nontrivial(1);
                let wit = || format!("key of {len} octets held as {}", ["Vec", "sole-owner Bytes", "Bytes with a live clone", "Bytes whose clone was just dropped", "view into a larger Bytes", "Bytes::from_static"][holder]);
                let r = guard(|| {
                    let whole = Bytes::copy_from_slice(&BIG[..]);
                    let mut keep: Option<Bytes> = None;
                    let info = match holder {
                        0 => Base64KeyInfo::try_from(want.clone()).unwrap(),
                        1 => Base64KeyInfo::try_from(Bytes::from(want.clone())).unwrap(),
                        2 => { let b = Bytes::from(want.clone()); keep = Some(b.clone()); Base64KeyInfo::try_from(b).unwrap() }
                        3 => { let b = Bytes::from(want.clone()); drop(b.clone()); Base64KeyInfo::try_from(b).unwrap() }
                        4 => { keep = Some(whole.clone()); Base64KeyInfo::try_from(whole.slice(50..50 + len)).unwrap() }
                        _ => Base64KeyInfo::try_from(Bytes::from_static(&BIG[50..50 + len])).unwrap(),
                    };
                    let shown = format!("{info}|{info:?}|{}|{}", info.as_ref().len(), info.len());
                    let mut specs = Vec::new();
                    for t in [format!("{info:>500}"), format!("{info:<500}"), format!("{info:*^501}"), format!("{info:0500}"), format!("{info:+}"), format!("{info:#}")] { specs.push(Base64KeyInfo::from_str(t.trim_matches(|c| c == ' ' || c == '*')).map(|x| x == want).unwrap_or(false)) }
                    let a = BgpsecAssertion::new(Asn::from_u32(1), KeyIdentifier::from(K1), info, None);
                    let text = serde_json::to_string(&a).unwrap();
                    let back: BgpsecAssertion = serde_json::from_str(&text).unwrap();
                    let file = SlurmFile::new(ValidationOutputFilters::new(Vec::new(), Vec::new()), LocallyAddedAssertions::new(Vec::new(), vec![a.clone()]));
                    let pay: Vec<Payload> = file.assertions.iter_payload().collect();
                    let k = pay[0].as_router_key().unwrap().key_info.clone();
                    let octets_ok = k.as_slice() == &want[..] && AsRef::<[u8]>::as_ref(&k) == &want[..] && k.clone().into_bytes().as_ref() == &want[..] && back == a && back.router_public_key == want && a.router_public_key == want
                        && Bytes::from(a.router_public_key.clone()).as_ref() == &want[..] && RouterKeyInfo::from(a.router_public_key.clone()).as_slice() == &want[..];
                    let untouched = keep.map_or(true, |kp| if holder == 4 { kp.as_ref() == &BIG[..] } else { kp.as_ref() == &want[..] }) && whole.as_ref() == &BIG[..];
                    (text, shown, specs, octets_ok, untouched, SlurmFile::from_str(&file.to_string()).map(|g| g == file).unwrap_or(false))
                });
                match (r, &twin_text) {
                    (Err(p), _) => lf.fail("C15.ownership", wit, || p.clone()),
                    (Ok((text, shown, specs, octets_ok, untouched, rt)), Ok(tw)) => {
                        if &text != tw { lf.fail("C15.ownership", wit, || format!("serialises as {} but the twin built from a Vec gives {}", clip(&text), clip(tw))) }
                        if !octets_ok || !rt { lf.fail("C15.ownership", wit, || format!("accessors / round trip disagree with the octets handed in ({shown})")) }
                        if !untouched { lf.fail("C15.ownership", wit, || "the clone or the surrounding buffer changed".into()) }
                        if specs.iter().any(|x| !x) { lf.fail("C15.display.format_spec", wit, || format!("Display with a format spec does not read back: {specs:?}")) }
                        sp.outcome(if len == 0 { "empty-key" } else { "key" });
                    }
                    (_, Err(p)) => lf.fail("C15.ownership", wit, || p.clone()),
                }
            }
        }
    });
    sp.done(true, "5 lengths x 6 holders");

    // ------------------------------------------------------------------ (4h)
    object_history(&ctx, thorough);

    // ------------------------------------------------------------------ (5)
    let sp = ctx.space("json.text_inputs",
        "files obtained by parsing hand-written RFC 8416 JSON (the RFC's own examples' shapes: members in other orders, extra whitespace, aspa members absent / null / present, version 1 and 2, \\u escapes in comments, padded and unpadded Base64): whatever from_str accepts must survive to_string -> from_str and to_string_pretty -> from_str unchanged; rejected texts are only counted; non-trivial = accepted texts");
    space_body(&ctx, &sp.clone(), || {
        let ski = "PI8aIgURlvsA_36AAQIDBKq7zN0";
        let texts: Vec<String> = vec![
            r#"{"slurmVersion":1,"validationOutputFilters":{"prefixFilters":[],"bgpsecFilters":[]},"locallyAddedAssertions":{"prefixAssertions":[],"bgpsecAssertions":[]}}"#.into(),
            r#"{"slurmVersion":2,"validationOutputFilters":{"prefixFilters":[],"bgpsecFilters":[],"aspaFilters":[]},"locallyAddedAssertions":{"prefixAssertions":[],"bgpsecAssertions":[],"aspaAssertions":[]}}"#.into(),
            r#"{"slurmVersion":1,"validationOutputFilters":{"prefixFilters":[],"bgpsecFilters":[],"aspaFilters":null},"locallyAddedAssertions":{"prefixAssertions":[],"bgpsecAssertions":[],"aspaAssertions":null}}"#.into(),
            r#"{ "locallyAddedAssertions" : { "bgpsecAssertions" : [ ], "prefixAssertions" : [ { "comment" : "é\u0001\"\\", "maxPrefixLength" : 25, "asn" : 64496, "prefix" : "192.0.2.0/24" } ] }, "validationOutputFilters" : { "bgpsecFilters" : [ { "asn" : 64496 }, { "SKI" : "SKIVALUE" }, {"comment":"x"} ], "prefixFilters" : [ { "prefix" : "2001:db8::/32" }, { "asn" : 0, "comment" : "" }, { } ] }, "slurmVersion" : 1 }"#.replace("SKIVALUE", ski),
            r#"{"slurmVersion":2,"validationOutputFilters":{"prefixFilters":[],"bgpsecFilters":[],"aspaFilters":[{"customerAsid":64496,"comment":"c"},{}]},"locallyAddedAssertions":{"prefixAssertions":[],"bgpsecAssertions":[{"asn":64496,"SKI":"SKIVALUE","routerPublicKey":"Zm9v"},{"asn":0,"SKI":"SKIVALUE","routerPublicKey":"Zm8=","comment":"padded"},{"asn":1,"SKI":"SKIVALUE","routerPublicKey":""}],"aspaAssertions":[{"customerAsn":64496,"providerAsns":[64497,64498]},{"providerAsns":[],"customerAsn":0,"comment":"none"}]}}"#.replace("SKIVALUE", ski),
            r#"{"slurmVersion":3,"validationOutputFilters":{"prefixFilters":[],"bgpsecFilters":[]},"locallyAddedAssertions":{"prefixAssertions":[],"bgpsecAssertions":[]}}"#.into(),
            r#"{"slurmVersion":1,"validationOutputFilters":{"prefixFilters":[],"bgpsecFilters":[]},"locallyAddedAssertions":{"prefixAssertions":[{"prefix":"192.0.2.0/24","asn":1,"maxPrefixLength":23}],"bgpsecAssertions":[]}}"#.into(),
            r#"{"slurmVersion":1,"validationOutputFilters":{"prefixFilters":[{"prefix":"192.0.2.0/24","unknown":1}],"bgpsecFilters":[]},"locallyAddedAssertions":{"prefixAssertions":[],"bgpsecAssertions":[]}}"#.into(),
            r#"{"slurmVersion":1,"validationOutputFilters":{"prefixFilters":[{"asn":4294967296}],"bgpsecFilters":[]},"locallyAddedAssertions":{"prefixAssertions":[],"bgpsecAssertions":[]}}"#.into(),
            r#"{"slurmVersion":1,"validationOutputFilters":{"prefixFilters":[{"asn":4294967295,"prefix":"0.0.0.0/0"}],"bgpsecFilters":[]},"locallyAddedAssertions":{"prefixAssertions":[{"prefix":"::/0","asn":4294967295,"maxPrefixLength":128}],"bgpsecAssertions":[]}}"#.into(),
        ];
        let mut lf = Lf::new();
        for t in &texts {
            sp.eval();
            match guard(|| SlurmFile::from_str(t).ok().map(|f| {
                let a = SlurmFile::from_str(&f.to_string()).map(|g| g == f).map_err(|e| e.to_string());
                let b = SlurmFile::from_str(&f.to_string_pretty()).map(|g| g == f).map_err(|e| e.to_string());
                (a, b, f.to_string())
            })) {
                Err(e) => lf.fail("C15.json.no_panic", || format!("text={t}"), || e.clone()),
                Ok(None) => sp.outcome("text-rejected"),
                Ok(Some((a, b, out))) => {
                    sp.outcome("text-accepted"); sp.nontrivial(1);
                    if a != Ok(true) || b != Ok(true) { lf.fail("C15.json.roundtrip", || format!("text={t}"), || format!("compact: {:?} pretty: {:?}; serialised as {out}", a, b)) }
                }
            }
        }
        sp.sample_str(|| texts[3].clone());
    });
    sp.done(true, "all listed texts");

    for sp in ABORTED.lock().unwrap().iter() { sp.done(false, "aborted by a panic outside the guarded cases") }
    emit_failures(&ctx);
    ctx.finish();
}
