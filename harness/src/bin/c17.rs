//! C17 — X.509 times and validity windows mean what the calendar says;
//! certificate serial numbers survive their text and DER forms.
//!
//! Spaces (all enumerated completely, nothing sampled):
//!  * every calendar day of years 1..=9999 x boundary seconds of the day, and
//!    every second of six pivot / leap days: `encode_varied` against a
//!    hand-built TLV, hand-built TLV through `take_from` / `take_opt_from`;
//!  * every 1-, 2- (thorough: 3-) position substitution over a 20-symbol
//!    alphabet in six valid strings of each form; the full month x day grid in
//!    leap / non-leap / century years; every two-digit value of every field;
//!    truncations, extensions, fractions, zone offsets, wrong tags;
//!  * all (not-before, not-after, now) triples and all window pairs over a
//!    boundary domain of instants (with nanosecond neighbours);
//!  * all 20-octet arrays with at most three non-zero octets from
//!    {01,7F,80,FF}: text, DER, order; hand-built INTEGER TLVs; decimal strings
//!    around the maximum;
//!  * every encoder written into sinks that take only part of a buffer per
//!    call, are interrupted, buffered, exactly full, too short or broken.
//!
//! Reference model: own proleptic-Gregorian arithmetic (days-from-civil and an
//! independent year-counting formula, cross-checked against each other), own
//! TLV writer, own base-10^9 big-number printer / base-2^32 parser. chrono is
//! used only as the container the library's `Time` is made of.

use std::cmp::Ordering;
use std::collections::BTreeMap;
use std::io::{self, Write};
use std::str::FromStr;
use std::time::{Duration, UNIX_EPOCH};
use std::sync::{Arc, Mutex};
use bcder::Mode;
use bcder::encode::{PrimitiveContent, Values};
use chrono::{DateTime, TimeDelta, Utc};
use rayon::prelude::*;
use rpki::crypto::keys::{PublicKey, PublicKeyFormat};
use rpki::crypto::signature::{Signature, SignatureAlgorithm};
use rpki::crypto::signer::{KeyError, Signer, SigningError};
use rpki::repository::x509::{Serial, Time, Validity};
use rpki_verif::{guard, hex, Ctx};

//------------ reference calendar ------------------------------------------

fn is_leap(y: i64) -> bool { (y % 4 == 0 && y % 100 != 0) || y % 400 == 0 }

fn dim(y: i64, m: u32) -> u32 {
    match m {
        1 | 3 | 5 | 7 | 8 | 10 | 12 => 31,
        4 | 6 | 9 | 11 => 30,
        2 => if is_leap(y) { 29 } else { 28 },
        _ => 0,
    }
}

/// Days since 1970-01-01 of a proleptic Gregorian date (era arithmetic).
fn days_from_civil(y: i64, m: u32, d: u32) -> i64 {
    let y = if m <= 2 { y - 1 } else { y };
    let era = y.div_euclid(400);
    let yoe = y.rem_euclid(400);
    let mp = (m as i64 + 9) % 12;
    let doy = (153 * mp + 2) / 5 + d as i64 - 1;
    let doe = yoe * 365 + yoe / 4 - yoe / 100 + doy;
    era * 146097 + doe - 719468
}

/// The same quantity by counting years and month lengths (cross-check).
fn days_by_counting(y: i64, m: u32, d: u32) -> i64 {
    let p = y - 1;
    let mut n = 365 * p + p / 4 - p / 100 + p / 400; // days before Jan 1 of y since 0001-01-01
    for k in 1..m { n += dim(y, k) as i64 }
    n + d as i64 - 1 - 719162
}

/// Inverse, used for rendering decoded instants in failure details only.
fn civil_from_days(z: i64) -> (i64, u32, u32) {
    let z = z + 719468;
    let era = z.div_euclid(146097);
    let doe = z.rem_euclid(146097);
    let yoe = (doe - doe / 1460 + doe / 36524 - doe / 146096) / 365;
    let y = yoe + era * 400;
    let doy = doe - (365 * yoe + yoe / 4 - yoe / 100);
    let mp = (5 * doy + 2) / 153;
    let d = (doy - (153 * mp + 2) / 5 + 1) as u32;
    let m = if mp < 10 { mp + 3 } else { mp - 9 } as u32;
    (if m <= 2 { y + 1 } else { y }, m, d)
}

fn render_ts(ts: i64) -> String {
    let (y, m, d) = civil_from_days(ts.div_euclid(86400));
    let s = ts.rem_euclid(86400);
    format!("{y:04}-{m:02}-{d:02}T{:02}:{:02}:{:02}Z", s / 3600, s / 60 % 60, s % 60)
}

fn tlv(tag: u8, content: &[u8]) -> Vec<u8> {
    let mut v = vec![tag];
    if content.len() < 128 { v.push(content.len() as u8) }
    else if content.len() < 256 { v.push(0x81); v.push(content.len() as u8) }
    else { v.push(0x82); v.push((content.len() >> 8) as u8); v.push(content.len() as u8) }
    v.extend_from_slice(content);
    v
}

const UTC: u8 = 0x17;
const GEN: u8 = 0x18;

/// The DER a conforming encoder produces for the instant: UTCTime for
/// 1950..=2049, GeneralizedTime otherwise (`force` overrides the choice).
fn model_encode(y: i64, mo: u32, d: u32, sod: u32, force: Option<u8>) -> Vec<u8> {
    let (h, mi, s) = (sod / 3600, sod / 60 % 60, sod % 60);
    let tag = force.unwrap_or(if (1950..=2049).contains(&y) { UTC } else { GEN });
    let text = if tag == UTC { format!("{:02}{mo:02}{d:02}{h:02}{mi:02}{s:02}Z", y % 100) }
               else { format!("{y:04}{mo:02}{d:02}{h:02}{mi:02}{s:02}Z") };
    tlv(tag, text.as_bytes())
}

#[derive(Clone, Copy, Debug, PartialEq, Eq)]
enum Judged { Valid(i64), Invalid, Unjudged }

fn two(b: &[u8]) -> Option<u32> {
    if b.len() == 2 && b[0].is_ascii_digit() && b[1].is_ascii_digit() { Some(((b[0] - b'0') * 10 + (b[1] - b'0')) as u32) } else { None }
}

/// The property's acceptance rule: exactly 13 / 15 octets, digits, 'Z', a
/// real date and time, pivot at 50. Year 0000 is not judged (the property
/// speaks of years 1..9999; ISO 8601 has a year 0000, RFC 5280 is silent).
fn model_parse(tag: u8, c: &[u8]) -> Judged {
    let (y, rest) = match tag {
        UTC => {
            if c.len() != 13 { return Judged::Invalid }
            match two(&c[0..2]) { Some(yy) => (if yy >= 50 { 1900 + yy as i64 } else { 2000 + yy as i64 }, &c[2..]), None => return Judged::Invalid }
        }
        GEN => {
            if c.len() != 15 { return Judged::Invalid }
            match (two(&c[0..2]), two(&c[2..4])) { (Some(a), Some(b)) => ((a * 100 + b) as i64, &c[4..]), _ => return Judged::Invalid }
        }
        _ => return Judged::Invalid,
    };
    let mut f = [0u32; 5];
    for i in 0..5 { match two(&rest[2 * i..2 * i + 2]) { Some(v) => f[i] = v, None => return Judged::Invalid } }
    if rest[10] != b'Z' { return Judged::Invalid }
    let [mo, d, h, mi, s] = f;
    if mo < 1 || mo > 12 || d < 1 || d > dim(y, mo) || h > 23 || mi > 59 || s > 59 { return Judged::Invalid }
    if y == 0 { return Judged::Unjudged }
    Judged::Valid(days_from_civil(y, mo, d) * 86400 + (h * 3600 + mi * 60 + s) as i64)
}

//------------ driving the library -----------------------------------------

fn mk_time(secs: i64, nanos: u32) -> Time {
    Time::new(DateTime::<Utc>::from_timestamp(secs, nanos).expect("instant representable"))
}

fn inst(t: Time) -> (i64, u32) { (t.timestamp(), t.timestamp_subsec_nanos()) }

fn lib_take(b: &[u8]) -> Result<(i64, u32), ()> {
    Mode::Der.decode(b, |cons| Time::take_from(cons)).map(inst).map_err(|_| ())
}

fn lib_take_opt(b: &[u8]) -> Result<Option<(i64, u32)>, ()> {
    Mode::Der.decode(b, |cons| {
        let r = Time::take_opt_from(cons)?;
        if r.is_none() { cons.skip_one()?; }
        Ok(r)
    }).map(|o| o.map(inst)).map_err(|_| ())
}

fn lib_encode_varied(t: Time, buf: &mut Vec<u8>) {
    buf.clear();
    t.encode_varied().write_encoded(Mode::Der, buf).expect("write to Vec");
}

/// Failure reporter for hot loops: at most 16 reports per oracle per work
/// unit, collected and emitted in sorted order at the end so that the output
/// does not depend on thread timing.
static COLLECTED: Mutex<Vec<(&'static str, u32, String, String)>> = Mutex::new(Vec::new());

struct Lf { n: BTreeMap<&'static str, u32>, got: Vec<(&'static str, u32, String, String)>, rank: u32 }
impl Lf {
    fn new(_ctx: &Ctx) -> Self { Lf { n: BTreeMap::new(), got: Vec::new(), rank: 0 } }
    fn fail(&mut self, oracle: &'static str, w: impl FnOnce() -> String, d: impl FnOnce() -> String) {
        let c = self.n.entry(oracle).or_insert(0);
        *c += 1;
        if *c <= 16 { self.got.push((oracle, self.rank, w(), d())) }
    }
}
impl Drop for Lf {
    fn drop(&mut self) {
        if !self.got.is_empty() { COLLECTED.lock().unwrap().append(&mut self.got) }
    }
}

fn emit_failures(ctx: &Ctx) {
    let mut v = std::mem::take(&mut *COLLECTED.lock().unwrap());
    // simplest first: by oracle, then rank (number of positions changed), then witness
    v.sort_by(|a, b| a.0.cmp(b.0).then(a.1.cmp(&b.1)).then(a.2.len().cmp(&b.2.len())).then_with(|| a.2.cmp(&b.2)));
    v.dedup();
    for (o, _, w, d) in v { ctx.fail(o, w, d) }
}

fn show(tlvb: &[u8]) -> String {
    let c = if tlvb.len() >= 2 { &tlvb[2..] } else { &[][..] };
    let txt: String = c.iter().map(|&b| if (0x20..0x7f).contains(&b) { b as char } else { '?' }).collect();
    format!("der={} (tag {:02x} \"{}\")", hex(tlvb), tlvb.first().copied().unwrap_or(0), txt)
}

type Oc = BTreeMap<&'static str, u64>;
fn bump(oc: &mut Oc, k: &'static str) { *oc.entry(k).or_insert(0) += 1 }

/// Runs one hand-built TLV through `take_from` and `take_opt_from` and
/// compares with the model. Returns true when the model calls it valid.
fn check_decode(lf: &mut Lf, oc: &mut Oc, tag: u8, content: &[u8]) -> bool {
    let b = tlv(tag, content);
    let m = model_parse(tag, content);
    match guard(|| lib_take(&b)) {
        Err(p) => lf.fail("C17.time.decode.no_panic", || show(&b), || p.clone()),
        Ok(r) => match (m, r) {
            (Judged::Valid(ts), Ok(got)) => {
                bump(oc, "accepted");
                if got != (ts, 0) { lf.fail("C17.time.decode.value", || show(&b), || format!("decoded as {} +{}ns, the string names {}", render_ts(got.0), got.1, render_ts(ts))) }
            }
            (Judged::Valid(ts), Err(())) => lf.fail("C17.time.decode.accept", || show(&b), || format!("rejected, but it is the well-formed encoding of {}", render_ts(ts))),
            (Judged::Invalid, Ok(got)) => {
                bump(oc, "wrongly-accepted");
                lf.fail("C17.time.decode.reject", || show(&b), || format!("accepted as {} although it is not a fixed-width all-digit Z-terminated real date/time", render_ts(got.0)))
            }
            (Judged::Invalid, Err(())) => bump(oc, "rejected"),
            (Judged::Unjudged, Ok(_)) => bump(oc, "year-0000-accepted-unjudged"),
            (Judged::Unjudged, Err(())) => bump(oc, "year-0000-rejected-unjudged"),
        }
    }
    match guard(|| lib_take_opt(&b)) {
        Err(p) => lf.fail("C17.time.take_opt.no_panic", || show(&b), || p.clone()),
        Ok(r) => match (m, r) {
            (Judged::Valid(ts), Ok(Some(got))) => {
                if got != (ts, 0) { lf.fail("C17.time.take_opt.value", || show(&b), || format!("decoded as {}, the string names {}", render_ts(got.0), render_ts(ts))) }
            }
            (Judged::Valid(ts), _) => lf.fail("C17.time.take_opt.accept", || show(&b), || format!("no time returned for the well-formed encoding of {}", render_ts(ts))),
            (Judged::Invalid, Ok(Some(got))) => lf.fail("C17.time.take_opt.reject", || show(&b), || format!("accepted as {}", render_ts(got.0))),
            _ => {}
        }
    }
    matches!(m, Judged::Valid(_))
}

fn combos(n: usize, k: usize) -> Vec<Vec<usize>> {
    fn rec(start: usize, n: usize, k: usize, cur: &mut Vec<usize>, out: &mut Vec<Vec<usize>>) {
        if cur.len() == k { out.push(cur.clone()); return }
        for p in start..n { cur.push(p); rec(p + 1, n, k, cur, out); cur.pop(); }
    }
    let mut out = Vec::new();
    rec(0, n, k, &mut Vec::new(), &mut out);
    out
}

//------------ sinks for the writer dimension ---------------------------------

/// A byte sink with a stated behaviour: at most `k` octets per call, an
/// optional one-off ErrorKind::Interrupted, an optional total capacity
/// (reports Ok(0) when full, like a Cursor over a slice) and an optional
/// hard failure after `fail_after` octets.
struct Sink { k: usize, first_one: bool, interrupt: bool, capacity: Option<usize>, fail_after: Option<usize>, got: Vec<u8> }
impl Write for Sink {
    fn write(&mut self, b: &[u8]) -> io::Result<usize> {
        if self.interrupt { self.interrupt = false; return Err(io::Error::new(io::ErrorKind::Interrupted, "interrupted")) }
        if let Some(n) = self.fail_after { if self.got.len() >= n { return Err(io::Error::new(io::ErrorKind::Other, "sink broke")) } }
        let mut n = b.len().min(self.k);
        if self.first_one && n > 0 { self.first_one = false; n = 1 }
        if let Some(c) = self.capacity { n = n.min(c - self.got.len()) }
        if let Some(f) = self.fail_after { n = n.min(f - self.got.len()) }
        self.got.extend_from_slice(&b[..n]);
        Ok(n)
    }
    fn flush(&mut self) -> io::Result<()> { Ok(()) }
}

#[derive(Clone, Copy, Debug)]
enum SinkKind { Chunk(usize), FirstOne, Interrupted(usize), Exact, Short(usize), Buffered(usize, usize), FailAfter(usize) }
impl SinkKind {
    fn all() -> Vec<SinkKind> {
        use SinkKind::*;
        vec![Chunk(usize::MAX), Chunk(1), Chunk(2), Chunk(7), FirstOne, Interrupted(usize::MAX), Interrupted(1), Exact, Short(1), Short(3), Buffered(8192, 1), Buffered(4, 1), FailAfter(0), FailAfter(3)]
    }
    fn healthy(self) -> bool { !matches!(self, SinkKind::Short(_) | SinkKind::FailAfter(_)) }
    /// Runs one encoder into the sink; returns its result and what arrived.
    fn run(self, len: usize, enc: &dyn Fn(&mut dyn Write) -> io::Result<()>) -> (Result<(), String>, Vec<u8>) {
        let mut s = Sink { k: usize::MAX, first_one: false, interrupt: false, capacity: None, fail_after: None, got: Vec::new() };
        match self {
            SinkKind::Chunk(k) => s.k = k,
            SinkKind::FirstOne => s.first_one = true,
            SinkKind::Interrupted(k) => { s.interrupt = true; s.k = k }
            SinkKind::Exact => s.capacity = Some(len),
            SinkKind::Short(n) => s.capacity = Some(len.saturating_sub(n)),
            SinkKind::FailAfter(n) => s.fail_after = Some(n),
            SinkKind::Buffered(cap, k) => {
                s.k = k;
                let mut bw = io::BufWriter::with_capacity(cap, s);
                let r = enc(&mut bw).and_then(|_| bw.flush()).map_err(|e| format!("{:?}", e.kind()));
                return match bw.into_inner() { Ok(s) => (r, s.got), Err(_) => (Err("into_inner".into()), Vec::new()) }
            }
        }
        let r = enc(&mut s).map_err(|e| format!("{:?}", e.kind()));
        (r, s.got)
    }
}

//------------ a signer whose "random" octets are a known pattern -----------

/// Only `rand` is used by `Serial::random` / `short_random`; it fills the
/// target with the octets `start, start+step, start+2*step, ...`.
struct PatternSigner { start: u8, step: u8 }
impl PatternSigner {
    fn stream(&self, n: usize) -> Vec<u8> { (0..n).map(|i| self.start.wrapping_add((i as u8).wrapping_mul(self.step))).collect() }
}
impl Signer for PatternSigner {
    type KeyId = ();
    type Error = io::Error;
    fn create_key(&self, _: PublicKeyFormat) -> Result<(), io::Error> { Err(io::Error::other("not a key store")) }
    fn get_key_info(&self, _: &()) -> Result<PublicKey, KeyError<io::Error>> { Err(KeyError::KeyNotFound) }
    fn destroy_key(&self, _: &()) -> Result<(), KeyError<io::Error>> { Err(KeyError::KeyNotFound) }
    fn sign<Alg: SignatureAlgorithm, D: AsRef<[u8]> + ?Sized>(&self, _: &(), _: Alg, _: &D) -> Result<Signature<Alg>, SigningError<io::Error>> { Err(SigningError::KeyNotFound) }
    fn sign_one_off<Alg: SignatureAlgorithm, D: AsRef<[u8]> + ?Sized>(&self, _: Alg, _: &D) -> Result<(Signature<Alg>, PublicKey), io::Error> { Err(io::Error::other("not a key store")) }
    fn rand(&self, target: &mut [u8]) -> Result<(), io::Error> { let s = self.stream(target.len()); target.copy_from_slice(&s); Ok(()) }
}

//------------ subjects and predecessors for the history dimension -----------

type Act = Arc<dyn Fn() -> String + Send + Sync>;

fn act(name: &str, f: impl Fn() -> String + Send + Sync + 'static) -> (String, Act) { (name.to_string(), Arc::new(f)) }

/// Runs an action under the panic guard and returns its observation.
fn observe(a: &Act) -> String { guard(|| a()).unwrap_or_else(|p| format!("PANIC {p}")) }

/// Runs `f` on a fresh OS thread (own thread-locals) and returns its result.
fn on_fresh_thread<T: Send + 'static>(f: impl FnOnce() -> T + Send + 'static) -> T {
    std::thread::Builder::new().stack_size(1 << 20).spawn(f).expect("spawn").join().expect("history thread does not panic: every action is guarded")
}

fn obs_time(tag: u8, content: &'static str) -> String {
    let b = tlv(tag, content.as_bytes());
    format!("take_from={:?} take_opt_from={:?}", lib_take(&b), lib_take_opt(&b))
}

/// Representative evaluations of every oracle family, each reduced to a
/// comparable text. Used as subjects of the history space and as the
/// observation set of the TZ runs; none depends on the current time except
/// through windows decades wide.
fn subjects() -> Vec<(String, Act)> {
    let mut v: Vec<(String, Act)> = Vec::new();
    for (tag, c) in [(UTC, "200101123405Z"), (UTC, "500101000000Z"), (UTC, "491231235959Z"), (GEN, "20240229120000Z"), (GEN, "20240201000000Z"), (GEN, "99991231235959Z"), (GEN, "00010101000000Z"),
        (GEN, "20240133120000Z"), (GEN, "20241301000000Z"), (GEN, "20230229000000Z"), (GEN, "20240230000000Z"), (GEN, "2024+201000000Z"), (GEN, "20240201240000Z"), (GEN, "20240201235960Z"),
        (UTC, "20240201000000Z"), (GEN, "240201000000Z"), (GEN, "2024020100000"), (GEN, "20240201000000ZZ"), (0x16, "20240201000000Z"), (UTC, "240132120000Z"), (UTC, "241701120000Z")] {
        v.push(act(&format!("decode {tag:02x} {c:?}"), move || obs_time(tag, c)));
    }
    v.push(act("Validity::take_from valid", || { let mut b = tlv(UTC, b"240201000000Z"); b.extend(tlv(GEN, b"20500101000000Z")); let b = tlv(0x30, &b);
        format!("{:?}", Mode::Der.decode(&b[..], |c| Validity::take_from(c)).map(|v| (inst(v.not_before()), inst(v.not_after()))).map_err(|_| ())) }));
    v.push(act("Validity::take_from second member invalid", || { let mut b = tlv(UTC, b"240201000000Z"); b.extend(tlv(GEN, b"20500133000000Z")); let b = tlv(0x30, &b);
        format!("{:?}", Mode::Der.decode(&b[..], |c| Validity::take_from(c)).map(|v| (inst(v.not_before()), inst(v.not_after()))).map_err(|_| ())) }));
    for ts in [0i64, 1706745600, 2524607999, 2524608000, -62135596800, 253402300799, 951825600] {
        v.push(act(&format!("encode {ts}"), move || { let t = mk_time(ts, 0); let mut b = Vec::new(); lib_encode_varied(t, &mut b);
            let mut g = Vec::new(); t.encode_generalized_time().write_encoded(Mode::Der, &mut g).unwrap();
            let mut w = Vec::new(); Validity::new(t, mk_time(ts.min(253402300000) + 799, 0)).encode().write_encoded(Mode::Der, &mut w).unwrap();
            format!("{} {} {} display={} rfc3339={} debug={:?}", hex(&b), hex(&g), hex(&w), *t, t.to_rfc3339(), t) }));
    }
    for txt in ["2016-12-31T23:59:60Z", "2024-02-29T12:00:00+01:00", "2024-02-01 00:00:00 UTC", "2024-02-30T00:00:00Z", "1999-12-31T23:59:59.5-05:30", "not a time"] {
        v.push(act(&format!("Time::from_str {txt:?}"), move || format!("{:?}", Time::from_str(txt).map(|t| { let mut b = Vec::new(); lib_encode_varied(t, &mut b); (inst(t), hex(&b)) }).map_err(|_| ()))));
    }
    v.push(act("Time::utc / years_from_date", || { let t = Time::utc(2024, 2, 29, 23, 59, 59); format!("{:?} {:?} {:?}", inst(t), inst(Time::years_from_date(1, *t)), inst(Time::years_from_date(-4, *t))) }));
    v.push(act("serde Time / Validity", || format!("{:?} {:?}", serde_json::to_string(&mk_time(1706745600, 5)).ok(), serde_json::from_str::<Validity>(&serde_json::to_string(&Validity::new(mk_time(0, 0), mk_time(1706745600, 0))).unwrap()).map(|v| inst(v.not_after())).map_err(|_| ()))));
    v.push(act("verify_at", || { let w = Validity::new(mk_time(1000, 0), mk_time(2000, 0));
        format!("{} {} {} {} {}", w.verify_at(mk_time(999, 999_999_999)).is_ok(), w.verify_at(mk_time(1000, 0)).is_ok(), w.verify_at(mk_time(2000, 0)).is_ok(), w.verify_at(mk_time(2000, 1)).is_ok(),
            Validity::new(mk_time(2000, 0), mk_time(1000, 0)).verify_at(mk_time(1500, 0)).is_ok()) }));
    v.push(act("verify() on windows decades wide", || { let (a, b, c, d) = (mk_time(946684800, 0), mk_time(978307200, 0), mk_time(4102444800, 0), mk_time(4133980800, 0));
        format!("{} {} {} {}", Validity::new(a, c).verify().is_ok(), Validity::new(a, b).verify().is_ok(), Validity::new(c, d).verify().is_ok(), Validity::new(c, a).verify().is_ok()) }));
    v.push(act("trim", || { let t = Validity::new(mk_time(10, 0), mk_time(50, 0)).trim(Validity::new(mk_time(30, 0), mk_time(90, 0))); format!("{:?} {:?}", inst(t.not_before()), inst(t.not_after())) }));
    for der in ["020100", "02020080", "020180", "0202007f", "02147fffffffffffffffffffffffffffffffffffffff", "02150080000000000000000000000000000000000000ff", "0200", "0a0101"] {
        v.push(act(&format!("Serial::take_from {der}"), move || format!("{:?}", lib_serial_take(&rpki_verif::unhex(der)).map(|s| (s.to_string(), hex(&lib_serial_der(s)))))));
    }
    for txt in ["0", "255", "730750818665451459101842416358141509827966271487", "730750818665451459101842416358141509827966271488", "+1", "", "12a", "00000000000000000000000000000000000000000000000000000000007"] {
        v.push(act(&format!("Serial::from_str {txt:?}"), move || format!("{:?}", Serial::from_str(txt).map(|s| (hex(&s.into_array()), s.to_string(), format!("{s:>12}"), format!("{s:?}"))).map_err(|_| ()))));
    }
    v.push(act("Serial::from(u64/u128) and order", || { let (a, b) = (Serial::from(u64::MAX), Serial::from(1u128 << 64)); format!("{a} {b} {:?} {}", a.cmp(&b), a == b) }));
    v.push(act("Serial::short_random(pattern)", || format!("{:?}", Serial::short_random(&PatternSigner { start: 0xA5, step: 1 }, 12).map(|s| hex(&s.into_array())).map_err(|_| ()))));
    v
}

/// Operations that leave by every exit path: successes on other values,
/// failures at every stage, writers failing after every k, panics.
fn predecessors(thorough: bool) -> Vec<(String, Act)> {
    let mut v: Vec<(String, Act)> = Vec::new();
    // successful decodes of every real date of one leap and one ordinary year
    for y in if thorough { vec![2024i64, 2023, 2000, 1900] } else { vec![2024, 2023] } { for mo in 1..=12u32 { for d in 1..=dim(y, mo) {
        v.push(act(&format!("decode ok {y:04}-{mo:02}-{d:02}"), move || { let b = model_encode(y, mo, d, 43200, Some(GEN)); format!("{:?}", lib_take(&b)) }));
        if d == 1 || d == dim(y, mo) { v.push(act(&format!("decode ok UTCTime/take_opt {y:04}-{mo:02}-{d:02}"), move || { let b = model_encode(y, mo, d, 1, Some(UTC)); format!("{:?}", lib_take_opt(&b)) })); }
    }}}
    // decode failures at every stage of the string
    let seed = "20240201120000Z";
    for pos in 0..seed.len() { for ch in ['+', 'x', '9'] {
        v.push(act(&format!("decode with {ch:?} at {pos}"), move || { let mut c = seed.as_bytes().to_vec(); c[pos] = ch as u8; let b = tlv(GEN, &c); format!("{:?} {:?}", lib_take(&b), lib_take_opt(&b)) }));
    }}
    for l in 0..seed.len() { v.push(act(&format!("decode truncated to {l}"), move || { let b = tlv(GEN, &seed.as_bytes()[..l]); format!("{:?} {:?}", lib_take(&b), lib_take_opt(&b)) })); }
    for l in 0..36usize { v.push(act(&format!("Validity::take_from of a TLV cut at {l}"), move || { let mut b = tlv(UTC, b"240201000000Z"); b.extend(tlv(GEN, b"20500101000000Z")); let b = tlv(0x30, &b);
        format!("{:?}", Mode::Der.decode(&b[..l.min(b.len())], |c| Validity::take_from(c)).is_ok()) })); }
    // encoders into sinks that fail after every k octets
    for k in 0..=36usize { for hard in [false, true] {
        v.push(act(&format!("encode Time / Validity / Serial into a sink {} after {k}", if hard { "breaking" } else { "full" }), move || {
            let mk = || Sink { k: usize::MAX, first_one: false, interrupt: false, capacity: if hard { None } else { Some(k) }, fail_after: if hard { Some(k) } else { None }, got: Vec::new() };
            let t = mk_time(1706745600, 0);
            let (mut a, mut b, mut c, mut d) = (mk(), mk(), mk(), mk());
            format!("{} {} {} {}", t.encode_varied().write_encoded(Mode::Der, &mut a).is_ok(), Validity::new(t, mk_time(2524608000, 0)).encode().write_encoded(Mode::Der, &mut b).is_ok(),
                Serial::from(u128::MAX).encode().write_encoded(Mode::Der, &mut c).is_ok(), t.encode_generalized_time().write_encoded(Mode::Der, &mut d).is_ok())
        }));
    }}
    // text failures at every position, overflows
    let max = "730750818665451459101842416358141509827966271487";
    for pos in 0..max.len() { v.push(act(&format!("Serial::from_str with 'x' at {pos}"), move || { let mut t = max.as_bytes().to_vec(); t[pos] = b'x'; format!("{:?}", Serial::from_str(std::str::from_utf8(&t).unwrap()).is_ok()) })); }
    for n in [48usize, 49, 50, 64, 200] { v.push(act(&format!("Serial::from_str of {n} nines"), move || format!("{:?}", Serial::from_str(&"9".repeat(n)).is_ok()))); }
    for l in 0..24usize { v.push(act(&format!("Serial::take_from of {l} content octets"), move || { let mut c = vec![0x11u8; l]; if l > 0 { c[0] = 0x7f } format!("{:?}", lib_serial_take(&tlv(2, &c)).is_ok()) })); }
    // panicking exits
    v.push(act("panic: Serial::short_random(len 21)", || format!("{:?}", guard(|| Serial::short_random(&PatternSigner { start: 1, step: 1 }, 21).is_ok()).is_err())));
    v.push(act("panic: Time::utc(2023-02-29)", || format!("{:?}", guard(|| inst(Time::utc(2023, 2, 29, 0, 0, 0))).is_err())));
    // clock readers and verifiers
    v.push(act("Time::now / tomorrow / next_year", || { let _ = (Time::now(), Time::tomorrow(), Time::next_year(), Validity::from_secs(5)); String::new() }));
    v.push(act("verify() failing (expired)", || format!("{}", Validity::new(mk_time(0, 0), mk_time(1, 0)).verify().is_ok())));
    v.push(act("verify() failing (not yet valid)", || format!("{}", Validity::new(mk_time(4102444800, 0), mk_time(4102444801, 0)).verify().is_ok())));
    v.push(act("verify_at failing", || format!("{}", Validity::new(mk_time(5, 0), mk_time(1, 0)).verify_at(mk_time(3, 0)).is_ok())));
    // every subject is also a predecessor
    v.extend(subjects().into_iter().map(|(n, a)| (format!("subject: {n}"), a)));
    v
}

//------------ reference big numbers for Serial ----------------------------

/// Decimal text of a big-endian unsigned octet string (base 10^9 limbs).
fn dec_of(bytes: &[u8]) -> String {
    let mut limbs: Vec<u64> = vec![0]; // little endian, base 1e9
    for &b in bytes {
        let mut carry = b as u64;
        for l in limbs.iter_mut() { let v = *l * 256 + carry; *l = v % 1_000_000_000; carry = v / 1_000_000_000; }
        if carry > 0 { limbs.push(carry) }
    }
    let mut s = format!("{}", limbs.last().unwrap());
    for l in limbs.iter().rev().skip(1) { s.push_str(&format!("{l:09}")) }
    s
}

/// Value of an all-ASCII-digit string as minimal big-endian octets (base 2^32 limbs).
fn octets_of_dec(s: &str) -> Option<Vec<u8>> {
    if s.is_empty() || !s.bytes().all(|b| b.is_ascii_digit()) { return None }
    let mut limbs: Vec<u64> = vec![0];
    for b in s.bytes() {
        let mut carry = (b - b'0') as u64;
        for l in limbs.iter_mut() { let v = *l * 10 + carry; *l = v & 0xFFFF_FFFF; carry = v >> 32; }
        if carry > 0 { limbs.push(carry) }
    }
    let mut out = Vec::new();
    for l in limbs.iter().rev() { out.extend_from_slice(&(*l as u32).to_be_bytes()) }
    while out.len() > 1 && out[0] == 0 { out.remove(0); }
    Some(out)
}

fn strip(a: &[u8]) -> &[u8] {
    let mut i = 0;
    while i + 1 < a.len() && a[i] == 0 { i += 1 }
    &a[i..]
}

/// Minimal DER INTEGER content of a non-negative number given as octets.
fn int_content(a: &[u8]) -> Vec<u8> {
    let s = strip(a);
    let mut v = Vec::with_capacity(s.len() + 1);
    if s[0] & 0x80 != 0 { v.push(0) }
    v.extend_from_slice(s);
    v
}

fn pad20(a: &[u8]) -> Option<[u8; 20]> {
    let s = strip(a);
    if s.len() > 20 { return None }
    let mut r = [0u8; 20];
    r[20 - s.len()..].copy_from_slice(s);
    Some(r)
}

fn num_cmp(a: &str, b: &str) -> Ordering { a.len().cmp(&b.len()).then_with(|| a.cmp(b)) }

fn lib_serial_der(s: Serial) -> Vec<u8> {
    let mut v = Vec::new();
    s.encode().write_encoded(Mode::Der, &mut v).expect("write to Vec");
    v
}

fn lib_serial_take(b: &[u8]) -> Result<Serial, ()> {
    Mode::Der.decode(b, |cons| Serial::take_from(cons)).map_err(|_| ())
}

fn serial_arrays(max_nonzero: usize) -> Vec<[u8; 20]> {
    let vals = [0x01u8, 0x7F, 0x80, 0xFF];
    let mut out = vec![[0u8; 20]];
    for k in 1..=max_nonzero {
        for pos in combos(20, k) {
            let n = 4usize.pow(k as u32);
            for mut code in 0..n {
                let mut a = [0u8; 20];
                for &p in &pos { a[p] = vals[code % 4]; code /= 4 }
                out.push(a);
            }
        }
    }
    out
}

fn main() {
    // child mode of the TZ runs: print the observation of every subject and leave
    if std::env::args().any(|a| a == "--c17-observe") {
        rpki_verif::engine::report::install_quiet_panic_hook();
        for (name, a) in subjects() { println!("{name}\t{}", observe(&a).replace('\n', " ")); }
        return
    }
    let ctx = Ctx::new("C17", "exploration");
    ctx.assume("the proleptic Gregorian calendar without leap seconds is the specification of 'calendar second'; RFC 5280 4.1.2.5 is the specification of the two time forms");
    ctx.assume("bcder's TLV framing (tag, definite length) is trusted; only the 2-octet-header forms are fed to the time decoders");
    ctx.assume("chrono::DateTime is used as the container of an instant (from_timestamp / timestamp); its calendar is under test together with the library, the expected values come from the harness' own arithmetic");
    let thorough = ctx.tier.is_thorough();

    // model self-check (machinery, not a verdict)
    {
        let mut bad = 0u64;
        for y in [1i64, 4, 100, 400, 1582, 1900, 1970, 2000, 2024, 2100, 9999] {
            for m in 1..=12u32 { for d in 1..=dim(y, m) {
                let a = days_from_civil(y, m, d);
                if a != days_by_counting(y, m, d) || civil_from_days(a) != (y, m, d) { bad += 1 }
            }}
        }
        if days_from_civil(1970, 1, 1) != 0 || days_from_civil(2000, 3, 1) != 11017 || days_from_civil(1, 1, 1) != -719162 { bad += 1 }
        if dec_of(&[0x01, 0x00]) != "256" || dec_of(&u128::MAX.to_be_bytes()) != u128::MAX.to_string() || octets_of_dec("65536") != Some(vec![1, 0, 0]) { bad += 1 }
        if bad > 0 { ctx.machinery_error(format!("reference model self-check failed ({bad})")) }
    }

    // ---------------------------------------------------------------- (1)
    let sods_all: Vec<u32> = if thorough {
        // every hour boundary (first and last second of the hour), every 10th
        // minute of hour 12, every 10th second of 12:34 (every single second of the
        // day is covered on 8 days by the next space)
        let mut v = vec![0u32, 1, 59, 60, 61, 86398, 86399];
        for h in 0..24u32 { v.extend([h * 3600, h * 3600 + 3599]) }
        for m in (0..60u32).step_by(10) { v.push(12 * 3600 + m * 60) }
        for s in (0..60u32).step_by(10) { v.push(12 * 3600 + 34 * 60 + s) }
        v.sort(); v.dedup(); v
    } else { vec![0, 1, 43200, 86398, 86399] };
    let sp = ctx.space("time.calendar_sweep",
        "every calendar day 0001-01-01..9999-12-31 (own month-length walk, cross-checked per day against days-from-civil) x listed seconds of the day: instant -> Time -> encode_varied must equal the hand-built TLV (UTCTime iff 1950<=year<=2049); hand-built TLV -> take_from and take_opt_from must give the instant back; for 1950..2049 the GeneralizedTime form of the same instant must decode to it too; the deprecated to_binary_time must equal timestamp(); every one of these valid contents under the OTHER time tag must be rejected by both decoders; the same second with a sub-second part (and, for the last second of a minute, in chrono's leap-second representation) must encode identically; non-trivial = every (day, second) pair, all distinct by construction");
    sp.set("seconds_of_day", serde_json::json!(sods_all));
    let sods = &sods_all;
    (1i64..=9999).into_par_iter().for_each(|y| {
        let mut lf = Lf::new(&ctx);
        let mut buf = Vec::with_capacity(20);
        let (mut n_utc, mut n_gen, mut evals, mut days, mut n_other) = (0u64, 0u64, 0u64, 0u64, 0u64);
        let mut running = days_by_counting(y, 1, 1);
        for mo in 1..=12u32 { for d in 1..=dim(y, mo) {
            let dn = days_from_civil(y, mo, d);
            if dn != running { ctx.machinery_error(format!("calendar models disagree at {y}-{mo}-{d}")); return }
            running += 1; days += 1;
            for &sod in sods {
                let ts = dn * 86400 + sod as i64;
                let want = model_encode(y, mo, d, sod, None);
                let wit = || format!("{y:04}-{mo:02}-{d:02} second-of-day {sod} (unix {ts})");
                match guard(|| { lib_encode_varied(mk_time(ts, 0), &mut buf); }) {
                    Err(p) => lf.fail("C17.time.encode.no_panic", wit, || p.clone()),
                    Ok(()) => if buf != want {
                        lf.fail("C17.time.encode.form", wit, || format!("encode_varied gave {} expected {}", show(&buf), show(&want)))
                    }
                }
                if want[0] == UTC { n_utc += 1 } else { n_gen += 1 }
                evals += 1;
                #[allow(deprecated)]
                if mk_time(ts, 0).to_binary_time() != ts { lf.fail("C17.time.to_binary_time", wit, || format!("to_binary_time gave {} for the instant with timestamp {ts}", { #[allow(deprecated)] mk_time(ts, 0).to_binary_time() })) }
                let mut forms = vec![want];
                if forms[0][0] == UTC { forms.push(model_encode(y, mo, d, sod, Some(GEN))) }
                for f in &forms {
                    evals += 2;
                    match guard(|| (lib_take(f), lib_take_opt(f))) {
                        Err(p) => lf.fail("C17.time.decode.no_panic", || show(f), || p.clone()),
                        Ok((a, b)) => {
                            if a != Ok((ts, 0)) { lf.fail("C17.time.roundtrip", || show(f), || format!("take_from gave {:?}, the string names {} (unix {ts})", a.map(|x| render_ts(x.0)), render_ts(ts))) }
                            if b != Ok(Some((ts, 0))) { lf.fail("C17.time.roundtrip.take_opt", || show(f), || format!("take_opt_from gave {:?}, expected unix {ts}", b)) }
                        }
                    }
                    // the same content under the other time tag names no time
                    let mut o = f.clone(); o[0] = if f[0] == UTC { GEN } else { UTC };
                    evals += 2; n_other += 1;
                    match guard(|| (lib_take(&o), lib_take_opt(&o))) {
                        Err(p) => lf.fail("C17.time.decode.no_panic", || show(&o), || p.clone()),
                        Ok((a, b)) => {
                            if let Ok(got) = a { lf.fail("C17.time.decode.reject", || show(&o), || format!("accepted as {} although the content has the layout of the other time type", render_ts(got.0))) }
                            if let Ok(Some(got)) = b { lf.fail("C17.time.take_opt.reject", || show(&o), || format!("accepted as {}", render_ts(got.0))) }
                        }
                    }
                }
                // the same second reached with a sub-second part, and (last second of a minute) in chrono's leap-second representation, encodes the same
                for ns in [999_999_999u32, 1_000_000_000, 1_999_999_999] {
                    if ns >= 1_000_000_000 && sod % 60 != 59 { continue }
                    if let Some(dt) = DateTime::<Utc>::from_timestamp(ts, ns) {
                        evals += 1;
                        let want = model_encode(y, mo, d, sod, None);
                        match guard(|| { lib_encode_varied(Time::new(dt), &mut buf); }) {
                            Err(p) => lf.fail("C17.time.encode.no_panic", wit, || p.clone()),
                            Ok(()) => if buf != want { lf.fail("C17.time.encode.form", || format!("{} +{ns}ns", wit()), || format!("encode_varied gave {} expected {}", show(&buf), show(&want))) }
                        }
                    }
                }
            }
        }}
        sp.outcomes_n("other-tag-rejected", n_other);
        sp.evals(evals); sp.nontrivial(days * sods.len() as u64);
        sp.outcomes_n("utctime", n_utc); sp.outcomes_n("generalizedtime", n_gen);
    });
    sp.sample_str(|| format!("2049-12-31 86399 -> {}", show(&model_encode(2049, 12, 31, 86399, None))));
    sp.sample_str(|| format!("2050-01-01 0 -> {}", show(&model_encode(2050, 1, 1, 0, None))));
    sp.done(true, &format!("all 3652059 days of years 1..9999 x {} seconds of the day", sods.len()));

    // ---------------------------------------------------------------- (2)
    let sp = ctx.space("time.every_second",
        "every second of 1949-12-31, 1950-01-01, 2049-12-31, 2050-01-01, 2000-02-29, 2100-02-28, 0001-01-01, 9999-12-31: same oracles as the sweep; non-trivial = every second, distinct by construction");
    let days8: [(i64, u32, u32); 8] = [(1949, 12, 31), (1950, 1, 1), (2049, 12, 31), (2050, 1, 1), (2000, 2, 29), (2100, 2, 28), (1, 1, 1), (9999, 12, 31)];
    for &(y, mo, d) in &days8 {
        let dn = days_from_civil(y, mo, d);
        (0u32..86400).into_par_iter().chunks(3600).for_each(|chunk| {
            let mut lf = Lf::new(&ctx);
            let mut buf = Vec::new();
            for sod in chunk {
                let ts = dn * 86400 + sod as i64;
                let want = model_encode(y, mo, d, sod, None);
                let wit = || format!("{y:04}-{mo:02}-{d:02} second-of-day {sod} (unix {ts})");
                match guard(|| { lib_encode_varied(mk_time(ts, 0), &mut buf); (lib_take(&want), lib_take_opt(&want)) }) {
                    Err(p) => lf.fail("C17.time.encode.no_panic", wit, || p.clone()),
                    Ok((a, b)) => {
                        if buf != want { lf.fail("C17.time.encode.form", wit, || format!("encode_varied gave {} expected {}", show(&buf), show(&want))) }
                        if a != Ok((ts, 0)) { lf.fail("C17.time.roundtrip", || show(&want), || format!("take_from gave {:?}, expected unix {ts}", a)) }
                        if b != Ok(Some((ts, 0))) { lf.fail("C17.time.roundtrip.take_opt", || show(&want), || format!("take_opt_from gave {:?}, expected unix {ts}", b)) }
                    }
                }
                sp.evals(3); sp.nontrivial(1);
                sp.outcome(if want[0] == UTC { "utctime" } else { "generalizedtime" });
            }
        });
    }
    sp.done(true, "all 86400 seconds of 8 days");

    // ---------------------------------------------------------------- (3)
    let alphabet: Vec<u8> = b"0123456789+- Zz.:/".iter().copied().chain([0x00u8, 0xFF]).collect();
    let seeds: Vec<(u8, &'static str)> = vec![
        (UTC, "200101123405Z"), (UTC, "500101000000Z"), (UTC, "491231235959Z"), (UTC, "000229120000Z"), (UTC, "991130101010Z"), (UTC, "240229235959Z"),
        (GEN, "20200101123405Z"), (GEN, "19491231235959Z"), (GEN, "20500101000000Z"), (GEN, "00010101000000Z"), (GEN, "99991231235959Z"), (GEN, "21000228120000Z"),
    ];
    let max_k = if thorough { 3 } else { 2 };
    let sp = ctx.space("time.substitutions",
        "6 valid strings per form; every choice of k positions (k = 1..max) gets every combination of symbols different from the original, alphabet = digits + - space Z z . : / NUL 0xFF; each through take_from and take_opt_from against the model parser; non-trivial = every case (differs from its seed in exactly k positions, distinct per seed by construction); counted as 'still-valid' when the model accepts the changed string");
    sp.set("alphabet", serde_json::json!(alphabet.iter().map(|b| format!("{b:02x}")).collect::<Vec<_>>()));
    sp.set("seeds", serde_json::json!(seeds.iter().map(|s| s.1).collect::<Vec<_>>()));
    sp.set("max_positions_changed", serde_json::json!(max_k));
    {
        let mut lf = Lf::new(&ctx); let mut oc = Oc::new();
        for &(tag, s) in &seeds { sp.evals(2); if !check_decode(&mut lf, &mut oc, tag, s.as_bytes()) { ctx.machinery_error(format!("seed {s} is not valid for the model")) } }
        sp.merge_outcomes(&oc);
    }
    for k in 1..=(if thorough { 4 } else { max_k }) {
        let mut work: Vec<(u8, &'static str, Vec<usize>)> = Vec::new();
        // 4 positions at once: only the first seed of each form (thorough)
        for (i, &(tag, s)) in seeds.iter().enumerate() { if k <= max_k || i % 6 == 0 { for c in combos(s.len(), k) { work.push((tag, s, c)) } } }
        work.par_iter().for_each(|(tag, s, pos)| {
            let mut lf = Lf::new(&ctx); let mut oc = Oc::new();
            lf.rank = pos.len() as u32;
            let orig = s.as_bytes();
            let choices: Vec<Vec<u8>> = pos.iter().map(|&p| alphabet.iter().copied().filter(|&a| a != orig[p]).collect()).collect();
            let total: usize = choices.iter().map(|c| c.len()).product();
            let mut cur = orig.to_vec();
            let mut valid = 0u64;
            for mut code in 0..total {
                for (i, &p) in pos.iter().enumerate() { cur[p] = choices[i][code % choices[i].len()]; code /= choices[i].len(); }
                if check_decode(&mut lf, &mut oc, *tag, &cur) { valid += 1 }
            }
            sp.evals(2 * total as u64); sp.nontrivial(total as u64);
            oc.insert("still-valid-after-change", valid); oc.retain(|_, v| *v > 0);
            sp.merge_outcomes(&oc);
        });
    }
    sp.sample_str(|| show(&tlv(UTC, b"20+1011234+5Z")));
    sp.sample_str(|| show(&tlv(GEN, b"+20001011234+5Z")));
    sp.done(true, &if thorough { format!("all substitutions of up to {max_k} positions in 12 seeds and of 4 positions in the first seed of each form") } else { format!("all substitutions of up to {max_k} positions in 12 seeds") });

    // ---------------------------------------------------------------- (3b)
    // Round 13: the alphabet above is chosen; a reader that validates digits by a nibble test, by
    // a wrapping subtraction or per two-digit group lets through octets no alphabet names. Here
    // every octet value is used: all 255 other values at every position, and all 65 535 other
    // pairs at every two ADJACENT positions (one two-digit group or two neighbouring groups).
    let sp = ctx.space("time.octets",
        "the 12 seeds of time.substitutions: every position gets every one of the 255 other octet values; every pair of adjacent positions gets every one of the 65 535 other octet pairs (thorough: also every pair of positions two apart); each through take_from and take_opt_from against the model parser; non-trivial = every case (distinct by construction); 'still-valid-after-change' when the model accepts the changed string");
    {
        let mut work: Vec<(u8, &'static str, usize, usize)> = Vec::new();
        for &(tag, s) in &seeds {
            for p in 0..s.len() { work.push((tag, s, p, p)) }
            for p in 0..s.len() - 1 { work.push((tag, s, p, p + 1)) }
            if thorough { for p in 0..s.len() - 2 { work.push((tag, s, p, p + 2)) } }
        }
        work.par_iter().for_each(|&(tag, s, p, q)| {
            let mut lf = Lf::new(&ctx); let mut oc = Oc::new();
            lf.rank = if p == q { 1 } else { 2 };
            let orig = s.as_bytes();
            let mut cur = orig.to_vec();
            let (mut valid, mut total) = (0u64, 0u64);
            if p == q {
                for a in 0..=255u8 { if a == orig[p] { continue } cur[p] = a; total += 1; if check_decode(&mut lf, &mut oc, tag, &cur) { valid += 1 } }
            } else {
                for a in 0..=255u8 { for b in 0..=255u8 {
                    if a == orig[p] && b == orig[q] { continue }
                    cur[p] = a; cur[q] = b; total += 1;
                    if check_decode(&mut lf, &mut oc, tag, &cur) { valid += 1 }
                }}
            }
            sp.evals(2 * total); sp.nontrivial(total);
            oc.insert("still-valid-after-change", valid); oc.retain(|_, v| *v > 0);
            sp.merge_outcomes(&oc);
        });
    }
    sp.sample_str(|| show(&tlv(GEN, b"19:00101000000Z")));
    sp.sample_str(|| show(&tlv(UTC, b"2001011234\xb05Z")));
    sp.done(true, if thorough { "12 seeds x (every position x 255 octets + every pair of positions at distance 1 and 2 x 65 535 octet pairs)" } else { "12 seeds x (every position x 255 octets + every adjacent pair of positions x 65 535 octet pairs)" });

    // ---------------------------------------------------------------- (4)
    let sp = ctx.space("time.fields",
        "GeneralizedTime: years {0001,0004,0100,0400,1600,1900,1949,1950,1999,2000,2023,2024,2049,2050,2100,9999,0000} x month 00..13 x day 00..32 x (hour,minute,second) in {000000,235959,240000,236000,235960,126100}; UTCTime: all 100 two-digit years x month 00..13 x day 00..32 at 120000; each field 00..99 alone in both forms; non-trivial = every tuple (distinct by construction); both verdicts occur");
    {
        let years: Vec<i64> = vec![1, 4, 100, 400, 1600, 1900, 1949, 1950, 1999, 2000, 2023, 2024, 2049, 2050, 2100, 9999, 0];
        let hms = ["000000", "235959", "240000", "236000", "235960", "126100"];
        years.par_iter().for_each(|&y| {
            let mut lf = Lf::new(&ctx); let mut oc = Oc::new(); let mut n = 0u64;
            for mo in 0..=13u32 { for d in 0..=32u32 { for t in hms {
                let s = format!("{y:04}{mo:02}{d:02}{t}Z");
                check_decode(&mut lf, &mut oc, GEN, s.as_bytes()); n += 1;
            }}}
            sp.evals(2 * n); sp.nontrivial(n); sp.merge_outcomes(&oc);
        });
        (0u32..100).into_par_iter().for_each(|yy| {
            let mut lf = Lf::new(&ctx); let mut oc = Oc::new(); let mut n = 0u64;
            for mo in 0..=13u32 { for d in 0..=32u32 {
                let s = format!("{yy:02}{mo:02}{d:02}120000Z");
                check_decode(&mut lf, &mut oc, UTC, s.as_bytes()); n += 1;
            }}
            sp.evals(2 * n); sp.nontrivial(n); sp.merge_outcomes(&oc);
        });
        // each field alone, both forms (century and year-of-century separately for GeneralizedTime)
        {
            let mut lf = Lf::new(&ctx); let mut oc = Oc::new(); let mut n = 0u64;
            for v in 0..100u32 {
                let dg = [b'0' + (v / 10) as u8, b'0' + (v % 10) as u8];
                for field in 0..6usize {
                    let mut u = *b"200101123405Z"; u[2 * field] = dg[0]; u[2 * field + 1] = dg[1];
                    if &u != b"200101123405Z" { check_decode(&mut lf, &mut oc, UTC, &u); n += 1 }
                }
                for field in 0..7usize {
                    let mut g = *b"20200101123405Z"; g[2 * field] = dg[0]; g[2 * field + 1] = dg[1];
                    if &g != b"20200101123405Z" { check_decode(&mut lf, &mut oc, GEN, &g); n += 1 }
                }
            }
            sp.evals(2 * n); sp.nontrivial(n); sp.merge_outcomes(&oc);
        }
        // all 10^4 four-digit years at a fixed date, and Feb 29 in every year
        (0u32..10000).into_par_iter().chunks(500).for_each(|ch| {
            let mut lf = Lf::new(&ctx); let mut oc = Oc::new(); let mut n = 0u64;
            for y in ch {
                check_decode(&mut lf, &mut oc, GEN, format!("{y:04}0229000000Z").as_bytes());
                check_decode(&mut lf, &mut oc, GEN, format!("{y:04}0630123456Z").as_bytes()); n += 2;
            }
            sp.evals(2 * n); sp.nontrivial(n); sp.merge_outcomes(&oc);
        });
    }
    sp.sample_str(|| "GeneralizedTime 19000229000000Z (1900 is not a leap year) and 20000229000000Z (2000 is)".to_string());
    sp.done(true, "full month x day grid in 17 years x 6 times of day, all two-digit years, every field value 00..99, Feb 29 of every four-digit year");

    // ---------------------------------------------------------------- (5)
    let sp = ctx.space("time.shapes",
        "for each of the 12 seeds: every proper prefix, every content length 0..=40, 63..65, 127..129, 255..257 made of the seed's digits (with and without a final Z), the string without Z, with an extra 0 / Z / 00 / space appended or prepended, fractional seconds (.5 .000 ,5), zone offsets (+0100 -0500 +0000 in place of and after Z), seconds omitted, the content under the other time tag and under 12 foreign tags (incl. constructed 37/38); non-trivial = every (tag, content) pair; take_opt_from must not yield a time for a foreign tag");
    {
        let mut cases: Vec<(u8, Vec<u8>)> = Vec::new();
        for &(tag, s) in &seeds {
            let b = s.as_bytes(); let body = &b[..b.len() - 1];
            for l in 0..b.len() { cases.push((tag, b[..l].to_vec())) }
            // every content length 0..=40 (and 63..65, 127..129, 255..257): digits of the seed repeated, with and without the final Z
            for l in (0..=40usize).chain([63, 64, 65, 127, 128, 129, 255, 256, 257]) { for z in [true, false] {
                let body = &b[..b.len() - 1];
                let mut v: Vec<u8> = (0..l).map(|i| body[i % body.len()]).collect();
                if z && l > 0 { v[l - 1] = b'Z' }
                cases.push((tag, v))
            }}
            for suf in [&b"0"[..], b"Z", b"00", b" ", b"\0", b"ZZ"] { let mut v = b.to_vec(); v.extend_from_slice(suf); cases.push((tag, v)) }
            for pre in [&b"0"[..], b" ", b"+", b"00"] { let mut v = pre.to_vec(); v.extend_from_slice(b); cases.push((tag, v)) }
            for frac in [&b".5Z"[..], b".000Z", b",5Z", b".Z", b".0Z"] { let mut v = body.to_vec(); v.extend_from_slice(frac); cases.push((tag, v)) }
            for off in [&b"+0100"[..], b"-0500", b"+0000", b"Z+0100", b"+01", b"+01:00"] { let mut v = body.to_vec(); v.extend_from_slice(off); cases.push((tag, v)) }
            { let mut v = body[..body.len() - 2].to_vec(); v.push(b'Z'); cases.push((tag, v.clone())); v.pop(); v.extend_from_slice(b"+0100"); cases.push((tag, v)) }
            { let mut v = body[..body.len() - 4].to_vec(); v.push(b'Z'); cases.push((tag, v)) }
            cases.push((if tag == UTC { GEN } else { UTC }, b.to_vec()));
            for other in [0x16u8, 0x13, 0x0C, 0x04, 0x02, 0x1A, 0x1E, 0x37, 0x38, 0x97, 0x98, 0x57] { cases.push((other, b.to_vec())) }
        }
        // 13 octets under the GeneralizedTime tag that are a valid UTCTime and vice versa, hand-picked
        cases.push((GEN, b"500101010101Z".to_vec())); cases.push((UTC, b"19500101010101Z".to_vec()));
        cases.push((UTC, b"5001010101Z".to_vec())); cases.push((GEN, b"195001010101Z".to_vec()));
        let mut lf = Lf::new(&ctx); let mut oc = Oc::new();
        for (tag, c) in &cases {
            check_decode(&mut lf, &mut oc, *tag, c);
            if *tag != UTC && *tag != GEN {
                let b = tlv(*tag, c);
                match guard(|| lib_take_opt(&b)) {
                    Ok(Ok(None)) => bump(&mut oc, "take_opt-none-for-foreign-tag"),
                    Ok(Err(())) => {
                        bump(&mut oc, "take_opt-error-for-foreign-tag");
                        sp.sample_str(|| format!("{} -> take_opt_from: {:?}", show(&b), Mode::Der.decode(&b[..], |cons| { let r = Time::take_opt_from(cons)?; if r.is_none() { cons.skip_one()?; } Ok(r.map(inst)) }).map_err(|e| e.to_string())));
                    }
                    Ok(Ok(Some(_))) => {} // already reported by check_decode
                    Err(_) => {}
                }
            }
            sp.evals(2); sp.nontrivial(1);
        }
        sp.merge_outcomes(&oc);
        sp.sample_str(|| show(&tlv(cases[5].0, &cases[5].1)));
    }
    sp.done(true, "all listed shape deviations of 12 seeds");

    // ---------------------------------------------------------------- (6)
    let inst_dom: Vec<(i64, u32)> = {
        let bases: Vec<i64> = vec![
            days_from_civil(1, 1, 1) * 86400, days_from_civil(1950, 1, 1) * 86400, 0, days_from_civil(2000, 2, 29) * 86400 + 43200,
            days_from_civil(2050, 1, 1) * 86400, days_from_civil(9999, 12, 31) * 86400 + 86399,
        ];
        let mut v = Vec::new();
        for &b in &bases {
            for (ds, ns) in [(-1i64, 0u32), (-1, 999_999_999), (0, 0), (0, 1), (0, 999_999_999), (1, 0)] { v.push((b + ds, ns)) }
        }
        if thorough { for &b in &bases { v.push((b + 86400, 0)); v.push((b - 86400, 0)); v.push((b, 500_000_000)) } }
        v.sort(); v.dedup(); v
    };
    let sp = ctx.space("validity.verify_at",
        "all (not-before, not-after, now) triples over the instant domain (6 anchors: 0001-01-01, 1950-01-01, epoch, 2000-02-29T12, 2050-01-01, 9999-12-31T23:59:59, each with -1s, -1ns, 0, +1ns, +1s-1ns, +1s neighbours): verify_at is Ok iff nb <= now <= na on (seconds, nanoseconds) tuples; verify_not_before / verify_not_after alone likewise; for every (nb, na) pair the wall-clock verify() equals verify_at(Time::now()); non-trivial = triples where now equals a bound or lies within 1 s of one");
    sp.set("instants", serde_json::json!(inst_dom.len()));
    {
        let n = inst_dom.len();
        (0..n).into_par_iter().for_each(|i| {
            let mut lf = Lf::new(&ctx); let mut oc = Oc::new(); let (mut ev, mut nt) = (0u64, 0u64);
            let nb = inst_dom[i];
            for &na in &inst_dom {
                // wall-clock sibling: verify() must give the verdict of verify_at(Time::now()); no domain instant lies within 20 years of the real now, so the verdict cannot flip between the two calls
                let v = Validity::new(mk_time(nb.0, nb.1), mk_time(na.0, na.1));
                match guard(|| { let t0 = Time::now(); (inst(t0), v.verify().is_ok(), v.verify_at(t0).is_ok()) }) {
                    Err(p) => lf.fail("C17.validity.no_panic", || format!("verify() nb={}+{}ns na={}+{}ns", render_ts(nb.0), nb.1, render_ts(na.0), na.1), || p.clone()),
                    Ok((t0, a, b)) => {
                        let want = nb <= t0 && t0 <= na;
                        if a != b || a != want { lf.fail("C17.validity.verify_now", || format!("nb={}+{}ns na={}+{}ns", render_ts(nb.0), nb.1, render_ts(na.0), na.1), || format!("verify() is {a}, verify_at(Time::now()) is {b}, nb <= now <= na is {want} (now = {})", render_ts(t0.0))) }
                        bump(&mut oc, if a { "current-by-wall-clock" } else { "not-current-by-wall-clock" });
                    }
                }
                ev += 1;
            for &now in &inst_dom {
                let want = nb <= now && now <= na;
                let v = Validity::new(mk_time(nb.0, nb.1), mk_time(na.0, na.1));
                let t = mk_time(now.0, now.1);
                let wit = || format!("nb={}+{}ns na={}+{}ns now={}+{}ns", render_ts(nb.0), nb.1, render_ts(na.0), na.1, render_ts(now.0), now.1);
                match guard(|| (v.verify_at(t).is_ok(), v.not_before().verify_not_before(t).is_ok(), v.not_after().verify_not_after(t).is_ok())) {
                    Err(p) => lf.fail("C17.validity.no_panic", wit, || p.clone()),
                    Ok((ok, okb, oka)) => {
                        if ok != want { lf.fail("C17.validity.verify_at", wit, || format!("verify_at is {} but nb <= now <= na is {}", if ok { "Ok" } else { "Err" }, want)) }
                        if okb != (nb <= now) { lf.fail("C17.validity.not_before", wit, || format!("verify_not_before is {okb}, nb <= now is {}", nb <= now)) }
                        if oka != (now <= na) { lf.fail("C17.validity.not_after", wit, || format!("verify_not_after is {oka}, now <= na is {}", now <= na)) }
                        bump(&mut oc, if ok { "inside" } else if nb > na { "empty-window" } else if now < nb { "too-early" } else { "too-late" });
                    }
                }
                ev += 1;
                if (now.0 - nb.0).abs() <= 1 || (now.0 - na.0).abs() <= 1 { nt += 1 }
            }}
            sp.evals(ev); sp.nontrivial(nt); sp.merge_outcomes(&oc);
        });
    }
    sp.sample_str(|| format!("{} instants, e.g. {:?}", inst_dom.len(), &inst_dom[..4]));
    sp.done(true, &format!("all {}^3 triples", inst_dom.len()));

    // ---------------------------------------------------------------- (7)
    let trim_dom: Vec<(i64, u32)> = {
        let a = days_from_civil(2049, 12, 31) * 86400 + 86399;
        let mut v = vec![(a - 86400, 0), (a - 1, 0), (a, 0), (a, 1), (a + 1, 0), (a + 86400, 0), (0, 0), (days_from_civil(1, 1, 1) * 86400, 0), (days_from_civil(9999, 12, 31) * 86400 + 86399, 0)];
        if thorough { v.extend([(a, 999_999_999), (a + 2, 0), (a - 2, 0), (1, 0), (-1, 0), (-1, 999_999_999)]) }
        v.sort(); v.dedup(); v
    };
    let sp = ctx.space("validity.trim",
        "all ordered pairs of windows, a window being any (not-before, not-after) pair over the trim domain (incl. inverted = empty windows): trim gives (max of not-befores, min of not-afters), is symmetric, and verify_at on the result equals the model's 'in both windows' at every domain instant; non-trivial = pairs of windows that differ in both bounds");
    {
        let wins: Vec<((i64, u32), (i64, u32))> = trim_dom.iter().flat_map(|&a| trim_dom.iter().map(move |&b| (a, b))).collect();
        wins.par_iter().for_each(|&(anb, ana)| {
            let mut lf = Lf::new(&ctx); let mut oc = Oc::new(); let (mut ev, mut nt) = (0u64, 0u64);
            let va = Validity::new(mk_time(anb.0, anb.1), mk_time(ana.0, ana.1));
            for &(bnb, bna) in &wins {
                let vb = Validity::new(mk_time(bnb.0, bnb.1), mk_time(bna.0, bna.1));
                let wit = || format!("a=[{}+{}ns,{}+{}ns] b=[{}+{}ns,{}+{}ns]", render_ts(anb.0), anb.1, render_ts(ana.0), ana.1, render_ts(bnb.0), bnb.1, render_ts(bna.0), bna.1);
                let want = (anb.max(bnb), ana.min(bna));
                match guard(|| { let t = va.trim(vb); let u = vb.trim(va); (inst(t.not_before()), inst(t.not_after()), t == u, trim_dom.iter().map(|&x| t.verify_at(mk_time(x.0, x.1)).is_ok()).collect::<Vec<_>>()) }) {
                    Err(p) => lf.fail("C17.validity.no_panic", wit, || p.clone()),
                    Ok((nb, na, sym, accepts)) => {
                        if (nb, na) != want { lf.fail("C17.validity.trim", wit, || format!("trim gave [{}+{}ns,{}+{}ns]", render_ts(nb.0), nb.1, render_ts(na.0), na.1)) }
                        if !sym { lf.fail("C17.validity.trim.symmetric", wit, || "a.trim(b) != b.trim(a)".into()) }
                        let mut any = false;
                        for (k, &x) in trim_dom.iter().enumerate() {
                            let both = anb <= x && x <= ana && bnb <= x && x <= bna;
                            any |= both;
                            if accepts[k] != both { lf.fail("C17.validity.trim.intersection", || format!("{} at {}+{}ns", wit(), render_ts(x.0), x.1), || format!("trimmed window accepts: {}, instant is in both windows: {}", accepts[k], both)) }
                        }
                        bump(&mut oc, if any { "windows-intersect" } else { "windows-disjoint" });
                    }
                }
                ev += 1 + trim_dom.len() as u64;
                if anb != bnb && ana != bna { nt += 1 }
            }
            sp.evals(ev); sp.nontrivial(nt); sp.merge_outcomes(&oc);
        });
        sp.set("windows", serde_json::json!(wins.len()));
    }
    sp.done(true, &format!("all pairs of {}^2 windows", trim_dom.len()));

    // ---------------------------------------------------------------- (8)
    let sp = ctx.space("validity.der",
        "all (not-before, not-after) pairs over 14 whole-second instants around the 1950 and 2050 pivots and the ends of the range: Validity::encode equals SEQUENCE { hand-built time, hand-built time } and Validity::take_from of the hand-built SEQUENCE gives the pair back; non-trivial = pairs whose two times use different forms");
    {
        let civ: Vec<(i64, u32, u32, u32)> = vec![(1, 1, 1, 0), (1949, 12, 31, 86399), (1950, 1, 1, 0), (1950, 1, 1, 1), (1970, 1, 1, 0), (1999, 12, 31, 86399), (2000, 1, 1, 0), (2000, 2, 29, 43200),
            (2024, 2, 29, 86399), (2049, 12, 31, 86398), (2049, 12, 31, 86399), (2050, 1, 1, 0), (2100, 2, 28, 86399), (9999, 12, 31, 86399)];
        let mut lf = Lf::new(&ctx);
        for &a in &civ { for &b in &civ {
            let (ta, tb) = (days_from_civil(a.0, a.1, a.2) * 86400 + a.3 as i64, days_from_civil(b.0, b.1, b.2) * 86400 + b.3 as i64);
            let (ea, eb) = (model_encode(a.0, a.1, a.2, a.3, None), model_encode(b.0, b.1, b.2, b.3, None));
            let mut body = ea.clone(); body.extend_from_slice(&eb);
            let want = tlv(0x30, &body);
            let wit = || format!("nb={} na={}", render_ts(ta), render_ts(tb));
            let r = guard(|| {
                let v = Validity::new(mk_time(ta, 0), mk_time(tb, 0));
                let mut out = Vec::new(); v.encode().write_encoded(Mode::Der, &mut out).unwrap();
                let back = Mode::Der.decode(&want[..], |cons| Validity::take_from(cons)).map(|v| (inst(v.not_before()), inst(v.not_after()))).map_err(|e| e.to_string());
                (out, back)
            });
            match r {
                Err(p) => lf.fail("C17.validity.no_panic", wit, || p.clone()),
                Ok((out, back)) => {
                    if out != want { lf.fail("C17.validity.der.encode", wit, || format!("got {} expected {}", hex(&out), hex(&want))) }
                    if back != Ok(((ta, 0), (tb, 0))) { lf.fail("C17.validity.der.decode", || format!("der={}", hex(&want)), || format!("got {:?}", back)) }
                }
            }
            // either member under the other time tag: not a validity
            for which in 0..2 {
                let (mut xa, mut xb) = (ea.clone(), eb.clone());
                let x = if which == 0 { &mut xa } else { &mut xb };
                x[0] = if x[0] == UTC { GEN } else { UTC };
                let mut body = xa.clone(); body.extend_from_slice(&xb);
                let bad = tlv(0x30, &body);
                sp.eval();
                match guard(|| Mode::Der.decode(&bad[..], |cons| Validity::take_from(cons)).map(|v| (inst(v.not_before()), inst(v.not_after()))).ok()) {
                    Err(p) => lf.fail("C17.validity.no_panic", || format!("der={}", hex(&bad)), || p.clone()),
                    Ok(Some(got)) => lf.fail("C17.validity.der.reject", || format!("der={}", hex(&bad)), || format!("accepted as [{}, {}] although one member carries the other time type's tag", render_ts(got.0.0), render_ts(got.1.0))),
                    Ok(None) => sp.outcome("swapped-tag-rejected"),
                }
            }
            sp.evals(2);
            if ea[0] != eb[0] { sp.nontrivial(1); sp.outcome("mixed-forms") } else if ea[0] == UTC { sp.outcome("both-utctime") } else { sp.outcome("both-generalizedtime") }
        }}
    }
    sp.done(true, "all 14^2 pairs");

    // ---------------------------------------------------------------- (9)
    let arrays = serial_arrays(3);
    let sp = ctx.space("serial.values",
        "0 and every 20-octet array with 1..3 non-zero octets drawn from {01,7F,80,FF} at any positions: from_array / from_slice accept iff the top bit is clear; Display equals the reference decimal (non-zero values), Display -> FromStr and reference decimal -> FromStr are identities, also when Display is called with width, alignment, fill, zero, sign and alternate flags (the trimmed text must read back); DER from the library equals the reference minimal INTEGER and both decode back; an array with the top bit set must not decode from its 21-octet INTEGER; non-trivial = every array (distinct by construction)");
    arrays.par_chunks(512).for_each(|chunk| {
        let mut lf = Lf::new(&ctx); let mut oc = Oc::new();
        for a in chunk {
            let a = *a;
            let valid = a[0] & 0x80 == 0;
            let wit = || format!("array={}", hex(&a));
            let dec = dec_of(&a);
            let der = tlv(0x02, &int_content(&a));
            let r = guard(|| {
                let s = Serial::from_array(a);
                let s2 = Serial::from_slice(&a);
                let s3 = Serial::from_slice(strip(&a));
                (s.ok(), s2.ok(), s3.ok())
            });
            let (s, s2, s3) = match r { Err(p) => { lf.fail("C17.serial.no_panic", wit, || p.clone()); continue } Ok(x) => x };
            if s.is_some() != valid || s2.is_some() != valid || s3.is_some() != valid {
                lf.fail("C17.serial.range", wit, || format!("from_array ok={} from_slice ok={} from_slice(stripped) ok={}, top bit clear={valid}", s.is_some(), s2.is_some(), s3.is_some()));
            }
            if !valid {
                bump(&mut oc, "out-of-range-rejected");
                match guard(|| lib_serial_take(&der)) {
                    Err(p) => lf.fail("C17.serial.no_panic", wit, || p.clone()),
                    Ok(Ok(x)) => lf.fail("C17.serial.der.decode_value", || format!("der={}", hex(&der)), || format!("a number >= 2^159 decoded as {x}")),
                    Ok(Err(())) => {}
                }
                continue
            }
            let s = s.unwrap();
            if s2 != Some(s) || s3 != Some(s) || s.into_array() != a { lf.fail("C17.serial.range", wit, || "from_slice / from_array / into_array disagree".into()) }
            let r = guard(|| {
                let txt = s.to_string();
                let txt2: String = s.into();
                (txt.clone(), txt2, Serial::from_str(&txt).ok(), Serial::from_str(&dec).ok(), lib_serial_der(s))
            });
            match r {
                Err(p) => lf.fail("C17.serial.no_panic", wit, || p.clone()),
                Ok((txt, txt2, back, parsed, lder)) => {
                    if txt != txt2 { lf.fail("C17.serial.text.display", wit, || format!("Display {txt:?} != String::from {txt2:?}")) }
                    if a != [0u8; 20] {
                        if txt != dec { lf.fail("C17.serial.text.display", wit, || format!("Display gave {txt:?}, the number is {dec}")) }
                        bump(&mut oc, "nonzero");
                    } else { bump(&mut oc, if txt.is_empty() { "zero-displayed-as-empty-string" } else { "zero" }) }
                    if back != Some(s) { lf.fail("C17.serial.text.roundtrip", wit, || format!("Display {txt:?} parses back to {:?}", back)) }
                    // call parameters: width / alignment / fill / sign / alternate flags must not change what the text says
                    for (spec, shown) in [(">60", format!("{s:>60}")), ("<60", format!("{s:<60}")), ("^61", format!("{s:^61}")), ("*^55", format!("{s:*^55}")), ("060", format!("{s:060}")), ("+", format!("{s:+}")), ("#", format!("{s:#}")), ("1", format!("{s:1}"))] {
                        let core = shown.trim_matches(|c| c == ' ' || c == '*');
                        if Serial::from_str(core).ok() != Some(s) || (a != [0u8; 20] && core.trim_start_matches('0') != dec) { lf.fail("C17.serial.text.format_spec", || format!("{} spec={{:{spec}}}", wit()), || format!("formatted as {shown:?}, which does not read back as {dec}")) }
                    }
                    if parsed != Some(s) { lf.fail("C17.serial.text.parse", wit, || format!("decimal {dec} parses to {:?}", parsed)) }
                    if lder != der { lf.fail("C17.serial.der.minimal", wit, || format!("library wrote {} but the minimal INTEGER is {}", hex(&lder), hex(&der))) }
                    match guard(|| (lib_serial_take(&der), lib_serial_take(&lder))) {
                        Err(p) => lf.fail("C17.serial.no_panic", wit, || p.clone()),
                        Ok((x, y)) => {
                            if x != Ok(s) { lf.fail("C17.serial.der.roundtrip", || format!("der={}", hex(&der)), || format!("hand-built minimal INTEGER decodes to {:?}, expected {dec}", x)) }
                            if y != Ok(s) { lf.fail("C17.serial.der.roundtrip", || format!("der={} (library output)", hex(&lder)), || format!("decodes to {:?}, expected {dec}", y)) }
                        }
                    }
                }
            }
        }
        sp.evals(6 * chunk.len() as u64); sp.nontrivial(chunk.len() as u64); sp.merge_outcomes(&oc);
    });
    sp.sample_str(|| { let mut a = [0u8; 20]; a[19] = 0x80; format!("array ..0080 -> der {}", hex(&tlv(2, &int_content(&a)))) });
    sp.done(true, &format!("{} arrays (<= 3 non-zero octets from 01,7F,80,FF)", arrays.len()));

    // ---------------------------------------------------------------- (10)
    let sp = ctx.space("serial.text",
        "decimal strings of 0,1,9,10,255,256,2^63,2^64-1,2^64,2^127,2^128,2^158,2^159-2,2^159-1,2^159,2^159+1,2^160-1,2^160, 10^z and 10^z-1 for every z in 1..=64, 9..9 and 0..07 of 127..65536 digits, each plain and with prefixes + - space 0 00 0x, suffixes space newline L .0, an inner _ , space, non-ASCII digits, and the last digit +-1: FromStr accepts iff all characters are ASCII digits and the value is < 2^159 and then equals the value; serde Deserialize of the same text as a JSON string gives the verdict and value of FromStr, Serialize writes the Display text; the empty string is not judged; non-trivial = every string (deduplicated)");
    {
        let pow2 = |k: usize| -> Vec<u8> { let mut v = vec![0u8; 21]; v[20 - k / 8] = 1 << (k % 8); v };
        let sub1 = |mut v: Vec<u8>| -> Vec<u8> { for i in (0..v.len()).rev() { if v[i] == 0 { v[i] = 0xFF } else { v[i] -= 1; break } } v };
        let add1 = |mut v: Vec<u8>| -> Vec<u8> { for i in (0..v.len()).rev() { if v[i] == 0xFF { v[i] = 0 } else { v[i] += 1; break } } v };
        let mut nums: Vec<String> = vec!["0", "1", "9", "10", "255", "256"].into_iter().map(String::from).collect();
        for k in [63usize, 64, 127, 128, 158, 159, 160] { nums.push(dec_of(&pow2(k))); nums.push(dec_of(&sub1(pow2(k)))); nums.push(dec_of(&add1(pow2(k)))); }
        nums.push(dec_of(&sub1(sub1(pow2(159)))));
        for z in 1usize..=64 { nums.push(format!("1{}", "0".repeat(z))); nums.push("9".repeat(z)); }
        for z in [127usize, 128, 129, 255, 256, 257, 1023, 1024, 1025, 4096, 65536] { nums.push("9".repeat(z)); nums.push(format!("{}7", "0".repeat(z))) }
        let mut strings: Vec<String> = vec![String::new()];
        for n in &nums {
            strings.push(n.clone());
            for p in ["+", "-", " ", "0", "00", "0x", "\u{0661}"] { strings.push(format!("{p}{n}")) }
            for s in [" ", "\n", "L", ".0", "\u{0663}", "\u{FF11}", "e0"] { strings.push(format!("{n}{s}")) }
            let mid = n.len() / 2;
            for i in ["_", ",", " ", "+"] { strings.push(format!("{}{i}{}", &n[..mid], &n[mid..])) }
            strings.push(format!("{}{}", "0".repeat(60), n));
        }
        strings.sort(); strings.dedup();
        let mut lf = Lf::new(&ctx);
        for st in &strings {
            sp.eval(); sp.nontrivial(1);
            let want: Option<[u8; 20]> = octets_of_dec(st).and_then(|o| pad20(&o)).filter(|a| a[0] & 0x80 == 0);
            let wit = || if st.len() > 120 { format!("text={:?}...({} chars)", &st[..st.char_indices().nth(60).map_or(st.len(), |x| x.0)], st.chars().count()) } else { format!("text={st:?}") };
            match guard(|| Serial::from_str(st).ok().map(|s| s.into_array())) {
                Err(p) => lf.fail("C17.serial.no_panic", wit, || p.clone()),
                Ok(got) => {
                    // Deserialize as a route: a JSON string must get the verdict and value of FromStr; Serialize must write the Display text
                    match guard(|| { let q = serde_json::to_string(st).unwrap(); let d = serde_json::from_str::<Serial>(&q).ok();
                        (d.map(|s| s.into_array()), d.map(|s| (serde_json::to_string(&s).ok(), serde_json::to_string(&s.to_string()).ok()))) }) {
                        Err(p) => lf.fail("C17.serial.no_panic", || format!("serde {}", wit()), || p.clone()),
                        Ok((d, ser)) => {
                            if d != got { lf.fail("C17.serial.text.serde", wit, || format!("Deserialize gives {:?}, FromStr gives {:?}", d.map(|x| hex(&x)), got.map(|x| hex(&x)))) }
                            if let Some((a, b)) = ser { if a != b { lf.fail("C17.serial.text.serde", wit, || format!("Serialize writes {:?}, Display is {:?}", a, b)) } }
                        }
                    }
                    if st.is_empty() { sp.outcome(if got.is_some() { "empty-string-accepted-unjudged" } else { "empty-string-rejected-unjudged" }); continue }
                    match (want, got) {
                        (Some(w), Some(g)) => { sp.outcome("accepted"); if w != g { lf.fail("C17.serial.text.parse", wit, || format!("parsed as {} expected {}", hex(&g), hex(&w))) } }
                        (Some(w), None) => lf.fail("C17.serial.text.parse", wit, || format!("rejected, expected {}", hex(&w))),
                        (None, Some(g)) => lf.fail("C17.serial.text.reject", wit, || format!("accepted as {} although it is not the decimal text of a number below 2^159", dec_of(&g))),
                        (None, None) => sp.outcome("rejected"),
                    }
                }
            }
        }
        sp.sample_str(|| format!("max = {}", dec_of(&sub1(pow2(159)))));
    }
    sp.done(true, "all listed strings");

    // ---------------------------------------------------------------- (11)
    let small = serial_arrays(2);
    let sp = ctx.space("serial.der_inputs",
        "for every array with <= 2 non-zero octets: the INTEGER contents {(for arrays with <= 1 non-zero octet) every content length 1..=40 of the form xx 00 .. 00: 21 octets and more cannot be a serial; minimal, one and two redundant leading 00, sign octet dropped, FF-prefixed, empty} under tag 02 and the minimal content under tags 0A, 03, 04: whatever Serial::take_from accepts must decode to the number the octets denote (two's complement, below 2^159) and re-encode to the same octets; the minimal encoding of a number below 2^159 must be accepted; non-trivial = every (tag, content), deduplicated per array");
    small.par_chunks(128).for_each(|chunk| {
        let mut lf = Lf::new(&ctx); let mut oc = Oc::new(); let mut n = 0u64;
        for a in chunk {
            let min = int_content(a);
            let mut variants: Vec<(u8, Vec<u8>)> = vec![(2, min.clone())];
            { let mut v = vec![0]; v.extend_from_slice(&min); variants.push((2, v.clone())); v.insert(0, 0); variants.push((2, v)); }
            if min[0] == 0 && min.len() > 1 { variants.push((2, min[1..].to_vec())) }
            { let mut v = vec![0xFF]; v.extend_from_slice(&min); variants.push((2, v)) }
            variants.push((2, vec![]));
            if a.iter().filter(|x| **x != 0).count() <= 1 { for l in 1..=40usize { let mut v = vec![0u8; l]; v[0] = if a[19] == 0 { 0x01 } else { a[19] & 0x7F | 1 }; variants.push((2, v)) } }
            for t in [0x0Au8, 0x03, 0x04] { variants.push((t, min.clone())) }
            variants.sort(); variants.dedup();
            for (tag, c) in variants {
                n += 1;
                let b = tlv(tag, &c);
                // what the octets denote
                let minimal = !c.is_empty() && !(c.len() > 1 && ((c[0] == 0 && c[1] & 0x80 == 0) || (c[0] == 0xFF && c[1] & 0x80 != 0)));
                let nonneg = !c.is_empty() && c[0] & 0x80 == 0;
                let value = if nonneg { pad20(&c).filter(|x| x[0] & 0x80 == 0) } else { None };
                let must_accept = tag == 2 && minimal && value.is_some();
                match guard(|| lib_serial_take(&b).map(|s| (s.into_array(), lib_serial_der(s)))) {
                    Err(p) => lf.fail("C17.serial.no_panic", || format!("der={}", hex(&b)), || p.clone()),
                    Ok(Ok((arr, re))) => {
                        bump(&mut oc, "accepted");
                        if tag != 2 || value != Some(arr) { lf.fail("C17.serial.der.decode_value", || format!("der={}", hex(&b)), || format!("accepted as {}, the octets denote {}", dec_of(&arr), if tag != 2 { "no INTEGER".to_string() } else if !nonneg { "a negative number".to_string() } else { dec_of(&c) })) }
                        else if re != b { lf.fail("C17.serial.der.canonical", || format!("der={}", hex(&b)), || format!("accepted, but the serial re-encodes as {}", hex(&re))) }
                    }
                    Ok(Err(())) => {
                        bump(&mut oc, "rejected");
                        if must_accept { lf.fail("C17.serial.der.roundtrip", || format!("der={}", hex(&b)), || "minimal INTEGER of a number below 2^159 rejected".into()) }
                    }
                }
            }
        }
        sp.evals(n); sp.nontrivial(n); sp.merge_outcomes(&oc);
    });
    sp.sample_str(|| "02 02 00 01 (redundant 00), 02 01 80 (negative), 02 15 00 80.. (2^159)".to_string());
    sp.done(true, &format!("{} arrays x up to 9 encodings", small.len()));

    // ---------------------------------------------------------------- (12)
    let sp = ctx.space("serial.order",
        "all ordered pairs over a subset of the valid arrays (quick: every 7th of the <= 2-octet family; thorough: the whole family): Ord / PartialOrd / Eq on Serial equal numeric order, decided independently by comparing the reference decimal strings (length, then digits); non-trivial = pairs of different numbers");
    {
        let fam: Vec<[u8; 20]> = small.iter().copied().filter(|a| a[0] & 0x80 == 0).collect();
        let subset: Vec<[u8; 20]> = if thorough { fam.clone() } else { fam.iter().copied().step_by(7).collect() };
        let decs: Vec<String> = subset.iter().map(|a| dec_of(a)).collect();
        let sers: Vec<Serial> = subset.iter().map(|a| Serial::from_array(*a).expect("valid")).collect();
        (0..subset.len()).into_par_iter().for_each(|i| {
            let mut lf = Lf::new(&ctx); let (mut l, mut e, mut g) = (0u64, 0u64, 0u64);
            for j in 0..subset.len() {
                let want = num_cmp(&decs[i], &decs[j]);
                let got = sers[i].cmp(&sers[j]);
                let ok = got == want && sers[i].partial_cmp(&sers[j]) == Some(want) && (sers[i] == sers[j]) == (want == Ordering::Equal)
                    && (sers[i] < sers[j]) == (want == Ordering::Less);
                if !ok { lf.fail("C17.serial.order", || format!("a={} b={}", decs[i], decs[j]), || format!("cmp gave {:?}, numbers compare {:?}", got, want)) }
                match want { Ordering::Less => l += 1, Ordering::Equal => e += 1, Ordering::Greater => g += 1 }
            }
            sp.evals(subset.len() as u64); sp.nontrivial(l + g);
            sp.outcomes_n("less", l); sp.outcomes_n("equal", e); sp.outcomes_n("greater", g);
        });
        sp.set("subset_size", serde_json::json!(subset.len()));
    }
    sp.done(true, "all ordered pairs of the subset");

    // ---------------------------------------------------------------- (13)
    let sp = ctx.space("serial.from_int",
        "u64 and u128 values 0, 2^k-1, 2^k, 2^k+1 for every k, MAX: Serial::from(v) holds the left-padded big-endian octets, Display equals Rust's own integer formatting, FromStr of that text gives the same serial; non-trivial = v > 0");
    {
        let mut v64: Vec<u64> = vec![0, u64::MAX];
        for k in 0..64 { let p = 1u64 << k; v64.extend([p.wrapping_sub(1), p, p.wrapping_add(1)]) }
        v64.sort(); v64.dedup();
        let mut v128: Vec<u128> = vec![0, u128::MAX];
        for k in 0..128 { let p = 1u128 << k; v128.extend([p.wrapping_sub(1), p, p.wrapping_add(1)]) }
        v128.sort(); v128.dedup();
        let mut lf = Lf::new(&ctx);
        let mut one = |v: u128, from64: bool| {
            sp.eval(); if v > 0 { sp.nontrivial(1) }
            let wit = || format!("{}({v})", if from64 { "u64" } else { "u128" });
            let mut want = [0u8; 20]; want[4..].copy_from_slice(&v.to_be_bytes());
            match guard(|| { let s = if from64 { Serial::from(v as u64) } else { Serial::from(v) }; (s.into_array(), s.to_string(), Serial::from_str(&v.to_string()).ok().map(|x| x == s)) }) {
                Err(p) => lf.fail("C17.serial.no_panic", wit, || p.clone()),
                Ok((arr, txt, back)) => {
                    if arr != want { lf.fail("C17.serial.from_int", wit, || format!("array {}", hex(&arr))) }
                    if v > 0 && txt != v.to_string() { lf.fail("C17.serial.text.display", wit, || format!("Display gave {txt:?}")) }
                    if back != Some(true) { lf.fail("C17.serial.text.parse", wit, || format!("FromStr of {v} gave {:?}", back)) }
                    sp.outcome(if v == 0 { "zero" } else if v >> 64 == 0 { "fits-u64" } else { "needs-u128" });
                }
            }
        };
        for &v in &v64 { one(v as u128, true) }
        for &v in &v128 { one(v, false) }
    }
    sp.done(true, "all boundary integers of both widths");

    // ---------------------------------------------------------------- (13b)
    let sp = ctx.space("time.years_from_date",
        "every day of the years 1895..1905, 1995..2005, 2019..2031, 2095..2105 x seconds of the day {0, 43200, 86399} (+ one sub-second instant per day) x years in -5..=5: years_from_date gives the same month, day, hour, minute, second in year+n, except that February 29 becomes February 28 (as documented, also when the target year is a leap year) and sub-second parts are dropped; expected instant from the harness' own calendar; non-trivial = (date, n) with n != 0; outcome classes: leap day normalised / ordinary day");
    {
        let mut years: Vec<i64> = Vec::new();
        for r in [1895..=1905i64, 1995..=2005, 2019..=2031, 2095..=2105] { years.extend(r) }
        years.par_iter().for_each(|&y| {
            let mut lf = Lf::new(&ctx); let (mut ev, mut nt, mut leap, mut ord) = (0u64, 0u64, 0u64, 0u64);
            for mo in 1..=12u32 { for d in 1..=dim(y, mo) {
                let dn = days_from_civil(y, mo, d);
                for (sod, ns) in [(0u32, 0u32), (43200, 0), (86399, 0), (45296, 999_999_999)] {
                    let date = DateTime::<Utc>::from_timestamp(dn * 86400 + sod as i64, ns).expect("representable");
                    for n in -5i32..=5 {
                        let td = if mo == 2 && d == 29 { 28 } else { d };
                        let want = days_from_civil(y + n as i64, mo, td) * 86400 + sod as i64;
                        let wit = || format!("years_from_date({n}, {}+{ns}ns)", render_ts(dn * 86400 + sod as i64));
                        match guard(|| inst(Time::years_from_date(n, date))) {
                            Err(p) => lf.fail("C17.time.no_panic", wit, || p.clone()),
                            Ok(got) => if got != (want, 0) { lf.fail("C17.time.years_from_date", wit, || format!("gave {}+{}ns, expected {}", render_ts(got.0), got.1, render_ts(want))) }
                        }
                        ev += 1; if n != 0 { nt += 1 }
                        if td != d { leap += 1 } else { ord += 1 }
                    }
                }
            }}
            sp.evals(ev); sp.nontrivial(nt); sp.outcomes_n("leap-day-normalised", leap); sp.outcomes_n("ordinary-day", ord);
        });
        sp.sample_str(|| "years_from_date(4, 2020-02-29T12:00:00Z) -> 2024-02-28T12:00:00Z".to_string());
    }
    sp.done(true, "all days of 46 years x 4 times of day x 11 offsets");

    let sp = ctx.space("time.wall_clock",
        "the Time::now()-based constructors, bracketed between two readings of Time::now(): tomorrow = now + 1 day, next_week = now + 7 days, five_minutes_ago / five_minutes_from_now = now -+ 300 s, next_year = years_from_now(1) and years_from_now(n) for n in -5..=5 equal years_from_date(n, t) for a t between the two readings (years_from_date is checked above); Validity::from_duration(d) / from_secs(s) for d in {0, +-1 s, +-1 day, +-10 years}: the bounds are now and now + d, the earlier one first; each repeated 200 times; non-trivial = every call; outcome classes: forward / backward / zero offset");
    {
        let mut lf = Lf::new(&ctx);
        let between = |lo: (i64, u32), x: (i64, u32), hi: (i64, u32)| lo <= x && x <= hi;
        let shift = |t: (i64, u32), secs: i64| (t.0 + secs, t.1);
        for _round in 0..200 {
            for (name, secs, f) in [("tomorrow", 86400i64, Time::tomorrow as fn() -> Time), ("next_week", 7 * 86400, Time::next_week as fn() -> Time),
                ("five_minutes_ago", -300, Time::five_minutes_ago as fn() -> Time), ("five_minutes_from_now", 300, Time::five_minutes_from_now as fn() -> Time)] {
                sp.eval(); sp.nontrivial(1);
                match guard(|| { let a = inst(Time::now()); let x = inst(f()); let b = inst(Time::now()); (a, x, b) }) {
                    Err(p) => lf.fail("C17.time.no_panic", || name.to_string(), || p.clone()),
                    Ok((a, x, b)) => {
                        if !between(shift(a, secs), x, shift(b, secs)) { lf.fail("C17.time.wall_clock", || name.to_string(), || format!("{name}() = {}+{}ns is not now{secs:+}s for any now in [{}+{}ns, {}+{}ns]", render_ts(x.0), x.1, render_ts(a.0), a.1, render_ts(b.0), b.1)) }
                        sp.outcome(if secs > 0 { "forward" } else { "backward" });
                    }
                }
            }
            for n in -5i32..=6 {
                sp.eval(); sp.nontrivial(1);
                let name = if n == 6 { "next_year()".to_string() } else { format!("years_from_now({n})") };
                let k = if n == 6 { 1 } else { n };
                match guard(|| { let a = Utc::now(); let x = if n == 6 { Time::next_year() } else { Time::years_from_now(n) }; let b = Utc::now();
                    (inst(Time::years_from_date(k, a)), inst(x), inst(Time::years_from_date(k, b))) }) {
                    Err(p) => lf.fail("C17.time.no_panic", || name.clone(), || p.clone()),
                    Ok((a, x, b)) => {
                        if !between(a.min(b), x, a.max(b)) { lf.fail("C17.time.wall_clock", || name.clone(), || format!("gave {}, years_from_date of the two surrounding clock readings gave {} and {}", render_ts(x.0), render_ts(a.0), render_ts(b.0))) }
                        sp.outcome(if k > 0 { "forward" } else if k < 0 { "backward" } else { "zero" });
                    }
                }
            }
            for secs in [0i64, 1, -1, 86400, -86400, 315_576_000, -315_576_000] {
                for via_secs in [false, true] {
                    sp.eval(); sp.nontrivial(1);
                    let name = if via_secs { format!("Validity::from_secs({secs})") } else { format!("Validity::from_duration({secs} s)") };
                    match guard(|| { let a = inst(Time::now()); let v = if via_secs { Validity::from_secs(secs) } else { Validity::from_duration(TimeDelta::try_seconds(secs).unwrap()) }; let b = inst(Time::now());
                        (a, inst(v.not_before()), inst(v.not_after()), b, v.verify().is_ok()) }) {
                        Err(p) => lf.fail("C17.validity.no_panic", || name.clone(), || p.clone()),
                        Ok((a, nb, na, b, _cur)) => {
                            let (lo_off, hi_off) = if secs >= 0 { (0, secs) } else { (secs, 0) };
                            if !between(shift(a, lo_off), nb, shift(b, lo_off)) || !between(shift(a, hi_off), na, shift(b, hi_off)) || nb > na {
                                lf.fail("C17.validity.from_duration", || name.clone(), || format!("window [{}+{}ns, {}+{}ns] is not [now, now{secs:+}s] in order for a now in [{}+{}ns, {}+{}ns]", render_ts(nb.0), nb.1, render_ts(na.0), na.1, render_ts(a.0), a.1, render_ts(b.0), b.1))
                            }
                            sp.outcome(if secs > 0 { "forward" } else if secs < 0 { "backward" } else { "zero" });
                        }
                    }
                }
            }
        }
    }
    sp.done(true, "30 constructors x 200 repetitions");

    let sp = ctx.space("serial.random",
        "Serial::random and Serial::short_random(len) for len 0..=20 with a signer whose rand() writes a known octet pattern (start in {00,01,7F,80,FF,A5} x step in {0,1,37}): the result is the 20-octet array whose tail holds exactly the octets the signer produced (top bit of the first octet cleared), it is a valid serial (from_array accepts it and gives it back) and it survives Display -> FromStr and encode -> take_from like every enumerated serial; non-trivial = every (len, pattern); outcome classes: number of octets taken from the signer (the doc comment promises `len` octets of randomness, the code takes 20 - len: recorded, not judged)");
    {
        let mut lf = Lf::new(&ctx);
        for start in [0x00u8, 0x01, 0x7F, 0x80, 0xFF, 0xA5] { for step in [0u8, 1, 37] {
            let signer = PatternSigner { start, step };
            for len in 0..=21usize {
                sp.eval(); sp.nontrivial(1);
                let wit = || if len == 21 { format!("random() pattern start={start:02x} step={step}") } else { format!("short_random(len={len}) pattern start={start:02x} step={step}") };
                let r = guard(|| { let s = if len == 21 { Serial::random(&signer) } else { Serial::short_random(&signer, len) }.expect("pattern signer cannot fail");
                    (s.into_array(), Serial::from_array(s.into_array()).ok() == Some(s), Serial::from_str(&s.to_string()).ok() == Some(s), lib_serial_take(&lib_serial_der(s)) == Ok(s), lib_serial_der(s)) });
                match r {
                    Err(p) => lf.fail("C17.serial.no_panic", wit, || p.clone()),
                    Ok((arr, valid, text_ok, der_ok, der)) => {
                        let l = if len == 21 { 0 } else { len };
                        let mut want = [0u8; 20]; want[l..].copy_from_slice(&signer.stream(20 - l)); want[0] &= 0x7F;
                        if arr != want { lf.fail("C17.serial.random", wit, || format!("array {} does not hold the signer's octets (expected {})", hex(&arr), hex(&want))) }
                        if !valid { lf.fail("C17.serial.range", wit, || format!("generated array {} is not a valid serial", hex(&arr))) }
                        if !text_ok { lf.fail("C17.serial.text.roundtrip", wit, || format!("array {}", hex(&arr))) }
                        if !der_ok || der != tlv(0x02, &int_content(&arr)) { lf.fail("C17.serial.der.roundtrip", wit, || format!("array {} encoded as {}", hex(&arr), hex(&der))) }
                        sp.outcome(if 20 - l == len { "signer-octets-equal-len" } else { "signer-octets-are-20-minus-len" });
                    }
                }
            }
        }}
        sp.sample_str(|| "short_random(len=4) takes 16 octets from the signer".to_string());
    }
    sp.done(true, "22 calls x 18 patterns");

    // ---------------------------------------------------------------- (13c)
    let sp = ctx.space("time.value_routes",
        "the route by which a Time is obtained as a dimension: 24 anchor seconds (ends of days, months, leap days, years, both pivots, range ends, leap-second dates, a mid-day :59) x sub-second parts {0, 1 ns, .5, .999999999} and chrono's leap-second representation (second 59 + 1.0, 1.5, 1.999999999 s) x routes {Time::new(chrono value), Time::utc, Time::from_str and serde_json over RFC 3339 spellings (Z, +00:00, +01:00, -05:30, lower case, space separator, second written 60 for the leap form), serde to_string -> from_str, From<SystemTime>, Validity::new(t,t) accessors, t + d and t - d for d in {0, 1 ns, 0.5 s, 1 s, 1 day, 7 days, 365 days, 366 days}}: whatever Time comes out (years 1..9999), encode_varied / encode_generalized_time / encode_utc_time must write the reference TLV of its timestamp() (whole seconds, a leap second folded onto :59 as chrono's timestamp() does) and the decoders must give that second back; spellings the library refuses are counted, not judged; non-trivial = values with a sub-second or leap-second part");
    {
        let anchors: Vec<(i64, u32, u32, u32)> = vec![(1, 1, 1, 0), (1, 1, 1, 59), (1, 12, 31, 86399), (1949, 12, 31, 86399), (1950, 1, 1, 0), (1969, 12, 31, 86399), (1970, 1, 1, 0), (1972, 6, 30, 86399),
            (1999, 12, 31, 86399), (2000, 2, 28, 86399), (2000, 2, 29, 0), (2000, 2, 29, 86399), (2000, 3, 1, 0), (2016, 12, 31, 86399), (2017, 1, 1, 0), (2020, 1, 1, 45299), (2024, 2, 29, 43199),
            (2049, 12, 31, 86399), (2050, 1, 1, 0), (2051, 6, 30, 86399), (2100, 2, 28, 86399), (2100, 3, 1, 0), (9999, 12, 31, 86340), (9999, 12, 31, 86399)];
        let nanos = [0u32, 1, 500_000_000, 999_999_999, 1_000_000_000, 1_500_000_000, 1_999_999_999];
        let deltas: Vec<TimeDelta> = vec![TimeDelta::zero(), TimeDelta::nanoseconds(1), TimeDelta::milliseconds(500), TimeDelta::seconds(1), TimeDelta::days(1), TimeDelta::days(7), TimeDelta::days(365), TimeDelta::days(366)];
        let work: Vec<((i64, u32, u32, u32), u32)> = anchors.iter().flat_map(|&a| nanos.iter().map(move |&n| (a, n))).collect();
        work.par_iter().for_each(|&((y, mo, d, sod), ns)| {
            let mut lf = Lf::new(&ctx); let mut oc = Oc::new(); let (mut ev, mut nt) = (0u64, 0u64);
            let leap = ns >= 1_000_000_000;
            if leap && sod % 60 != 59 { return }
            let ts = days_from_civil(y, mo, d) * 86400 + sod as i64;
            // judge one obtained value
            let mut judge = |lf: &mut Lf, oc: &mut Oc, route: &str, t: Time| {
                let (tsec, tns) = inst(t);
                let (ty, tmo, td) = civil_from_days(tsec.div_euclid(86400));
                if !(1..=9999).contains(&ty) { bump(oc, "outside-years-1-9999"); return }
                let tsod = tsec.rem_euclid(86400) as u32;
                let wit = || format!("route={route} value={}+{tns}ns", render_ts(tsec));
                ev += 1; if tns != 0 { nt += 1 }
                let mut forms: Vec<(&str, Option<u8>)> = vec![("encode_varied", None), ("encode_generalized_time", Some(GEN))];
                if (1950..=2049).contains(&ty) { forms.push(("encode_utc_time", Some(UTC))) }
                for (name, force) in forms {
                    let want = model_encode(ty, tmo, td, tsod, force);
                    match guard(|| { let mut b = Vec::new(); match force { None => t.encode_varied().write_encoded(Mode::Der, &mut b), Some(GEN) => t.encode_generalized_time().write_encoded(Mode::Der, &mut b), _ => t.encode_utc_time().write_encoded(Mode::Der, &mut b) }.expect("Vec");
                        let back = (lib_take(&b), lib_take_opt(&b)); (b, back) }) {
                        Err(p) => lf.fail("C17.time.encode.no_panic", wit, || p.clone()),
                        Ok((b, (x, yo))) => {
                            if b != want { lf.fail("C17.time.route.encode", wit, || format!("{name} wrote {} expected {}", show(&b), show(&want))) }
                            if x != Ok((tsec, 0)) || yo != Ok(Some((tsec, 0))) { lf.fail("C17.time.route.roundtrip", wit, || format!("{name} wrote {}; take_from gives {:?}, take_opt_from {:?}; the value's timestamp is {tsec}", show(&b), x, yo)) }
                        }
                    }
                }
                match guard(|| { let v = Validity::new(t, t); let mut b = Vec::new(); v.encode().write_encoded(Mode::Der, &mut b).expect("Vec");
                    (Mode::Der.decode(&b[..], |cons| Validity::take_from(cons)).map(|r| (inst(r.not_before()), inst(r.not_after()))).ok(), inst(v.not_before()), inst(v.not_after()), b) }) {
                    Err(p) => lf.fail("C17.validity.no_panic", wit, || p.clone()),
                    Ok((back, nb, na, b)) => {
                        if back != Some(((tsec, 0), (tsec, 0))) { lf.fail("C17.time.route.roundtrip", wit, || format!("Validity::encode wrote {}; take_from gives {:?}", hex(&b), back)) }
                        if nb != (tsec, tns) || na != (tsec, tns) { lf.fail("C17.validity.trim", wit, || "Validity::new(t, t) does not hand t back".into()) }
                    }
                }
                bump(oc, if tns >= 1_000_000_000 { "leap-second-form" } else if tns > 0 { "sub-second" } else { "whole-second" });
            };
            let mut obtained: Vec<(String, Time)> = Vec::new();
            // chrono value
            let Some(dt) = DateTime::<Utc>::from_timestamp(ts, ns) else { return };
            obtained.push(("Time::new(DateTime::from_timestamp)".into(), Time::new(dt)));
            obtained.push(("Time::from(DateTime)".into(), Time::from(dt)));
            if ns == 0 { if let Ok(t) = guard(|| Time::utc(y as i32, mo, d, sod / 3600, sod / 60 % 60, sod % 60)) { obtained.push(("Time::utc".into(), t)) } }
            // RFC 3339 spellings of the instant
            let frac = match ns % 1_000_000_000 { 0 => String::new(), 500_000_000 => ".5".into(), n => format!(".{n:09}") };
            for (off_s, off_txt) in [(0i64, "Z"), (0, "+00:00"), (3600, "+01:00"), (-19800, "-05:30"), (0, "z")] {
                let local = ts + off_s;
                let (ly, lmo, ld) = civil_from_days(local.div_euclid(86400));
                if !(1..=9999).contains(&ly) { continue }
                let ls = local.rem_euclid(86400);
                let sec = ls % 60 + if leap { 1 } else { 0 };
                for sep in ["T", " ", "t"] {
                    if (sep != "T") != (off_txt == "z") && sep != "T" { continue }
                    let text = format!("{ly:04}-{lmo:02}-{ld:02}{sep}{:02}:{:02}:{sec:02}{frac}{off_txt}", ls / 3600, ls / 60 % 60);
                    match guard(|| Time::from_str(&text).ok()) { Ok(Some(t)) => obtained.push((format!("Time::from_str({text:?})"), t)), Ok(None) => bump(&mut oc, "spelling-refused"), Err(p) => lf.fail("C17.time.no_panic", || format!("Time::from_str({text:?})"), || p.clone()) }
                    match guard(|| serde_json::from_str::<Time>(&format!("\"{text}\"")).ok()) { Ok(Some(t)) => obtained.push((format!("serde_json::from_str({text:?})"), t)), Ok(None) => bump(&mut oc, "spelling-refused"), Err(p) => lf.fail("C17.time.no_panic", || format!("serde {text:?}"), || p.clone()) }
                }
            }
            // serde round trip, SystemTime, arithmetic, Validity
            let t0 = Time::new(dt);
            if let Ok(Some(t)) = guard(|| serde_json::to_string(&t0).ok().and_then(|j| serde_json::from_str::<Time>(&j).ok())) { obtained.push(("serde to_string -> from_str".into(), t)) }
            if let Ok(Some(t)) = guard(|| serde_json::to_string(&Validity::new(t0, t0)).ok().and_then(|j| serde_json::from_str::<Validity>(&j).ok()).map(|v| v.not_after())) { obtained.push(("serde Validity round trip".into(), t)) }
            if !leap {
                let st = if ts >= 0 { UNIX_EPOCH.checked_add(Duration::new(ts as u64, ns)) } else { UNIX_EPOCH.checked_sub(Duration::new((-ts) as u64, 0)).and_then(|x| x.checked_add(Duration::new(0, ns))) };
                if let Some(st) = st { if let Ok(t) = guard(|| Time::from(st)) { obtained.push(("Time::from(SystemTime)".into(), t)) } }
            }
            for dl in &deltas {
                if let Ok(t) = guard(|| t0 + *dl) { obtained.push((format!("t + {dl}"), t)) } else { bump(&mut oc, "arithmetic-out-of-range") }
                if let Ok(t) = guard(|| t0 - *dl) { obtained.push((format!("t - {dl}"), t)) } else { bump(&mut oc, "arithmetic-out-of-range") }
            }
            for (route, t) in obtained { judge(&mut lf, &mut oc, &route, t) }
            sp.evals(ev); sp.nontrivial(nt); sp.merge_outcomes(&oc);
        });
        sp.sample_str(|| "route=Time::from_str(\"2016-12-31T23:59:60Z\") value=2016-12-31T23:59:59Z+1000000000ns".to_string());
    }
    sp.done(true, "24 anchors x 7 sub-second / leap forms x all routes");

    // ---------------------------------------------------------------- (15)
    let subj = subjects();
    let baseline: Vec<String> = subj.iter().map(|(_, a)| { let a = a.clone(); on_fresh_thread(move || observe(&a)) }).collect();
    let sp = ctx.space("history.independent",
        "sequences instead of single evaluations: for every predecessor p (successful decodes of every real date of a leap and an ordinary year; decode failures with a bad character at every position and at every truncation; Validity TLVs cut at every length; encoders into a sink that is full / breaks after k octets for every k in 0..=36; Serial text failing at every digit, overflowing, INTEGERs of 0..23 octets; two panicking calls; clock readers; failing verify / verify_at; every subject) a dedicated OS thread runs p, then all subjects in order, then all subjects in reverse order; every observation (everything the call returns, as text) must equal the observation of the same subject evaluated first thing on its own fresh thread; thorough: all ordered pairs (p1, p2) of a 60-element selection as well; non-trivial = every (sequence, subject) evaluation");
    {
        let preds = predecessors(thorough);
        let run_seq = |names: Vec<String>, acts: Vec<Act>| {
            let subj2: Vec<(String, Act)> = subj.clone();
            let seen: Vec<(usize, String)> = on_fresh_thread(move || {
                for a in &acts { let _ = observe(a); }
                let mut out = Vec::new();
                for (i, (_, a)) in subj2.iter().enumerate() { out.push((i, observe(a))) }
                for (i, (_, a)) in subj2.iter().enumerate().rev() { out.push((i, observe(a))) }
                out
            });
            let mut lf = Lf::new(&ctx);
            let mut same = 0u64;
            for (k, (i, o)) in seen.iter().enumerate() {
                if *o == baseline[*i] { same += 1 } else {
                    lf.fail("C17.history.independent", || format!("after [{}] subject [{}] ({} pass)", names.join("; "), subj[*i].0, if k < subj.len() { "first" } else { "reverse" }),
                        || format!("observed {o} but on a fresh thread the same call gives {}", baseline[*i]));
                }
            }
            sp.evals(seen.len() as u64); sp.nontrivial(seen.len() as u64); sp.traces(1);
            sp.outcomes_n("same-as-fresh-thread", same); sp.outcomes_n("differs-from-fresh-thread", seen.len() as u64 - same);
        };
        preds.par_iter().for_each(|(n, a)| run_seq(vec![n.clone()], vec![a.clone()]));
        let mut bound = format!("{} predecessors x {} subjects x 2 passes", preds.len(), subj.len());
        if thorough {
            let sel: Vec<&(String, Act)> = preds.iter().step_by((preds.len() / 60).max(1)).collect();
            let pairs: Vec<(usize, usize)> = (0..sel.len()).flat_map(|i| (0..sel.len()).map(move |j| (i, j))).collect();
            pairs.par_iter().for_each(|&(i, j)| run_seq(vec![sel[i].0.clone(), sel[j].0.clone()], vec![sel[i].1.clone(), sel[j].1.clone()]));
            bound.push_str(&format!(" + all {} ordered pairs of {} predecessors", pairs.len(), sel.len()));
        }
        sp.outcome("baseline"); // the fresh-thread observations themselves
        sp.set("subjects", serde_json::json!(subj.iter().map(|s| s.0.clone()).collect::<Vec<_>>()));
        sp.set("predecessors", serde_json::json!(preds.len()));
        sp.sample_str(|| format!("after [{}] subject [{}] -> {}", preds[31].0, subj[7].0, baseline[7]));
        sp.done(true, &bound);
    }

    let sp = ctx.space("history.date_memo",
        "decode history over whole years: for every real date p of 2024 and 2023 (thorough: 2000, 1900, 2100 too) a dedicated OS thread decodes p successfully and then every GeneralizedTime string of that year whose month and day fields run over 00..99 x 00..99 (all 10000, valid and invalid) through take_from and take_opt_from: the invalid ones must still be rejected and the valid ones must give their own date (model parser); non-trivial = every (predecessor, subject) pair; the UTCTime form likewise for the first and last day of each month as predecessor");
    {
        let years: Vec<i64> = if thorough { vec![2024, 2023, 2000, 1900, 2100] } else { vec![2024, 2023] };
        let mut preds: Vec<(i64, u32, u32, u8)> = Vec::new();
        for &y in &years { for mo in 1..=12u32 { for d in 1..=dim(y, mo) { preds.push((y, mo, d, GEN)); if (d == 1 || d == dim(y, mo)) && (1950..=2049).contains(&y) { preds.push((y, mo, d, UTC)) } } } }
        preds.par_iter().for_each(|&(y, mo, d, tag)| {
            let res: (u64, u64, u64, Vec<(Vec<u8>, String)>) = on_fresh_thread(move || {
                let p = model_encode(y, mo, d, 43200, Some(tag));
                let mut bad: Vec<(Vec<u8>, String)> = Vec::new();
                let (mut n, mut acc, mut rej) = (0u64, 0u64, 0u64);
                if guard(|| lib_take(&p)).ok().and_then(|r| r.ok()).is_none() { bad.push((p.clone(), "the predecessor itself was not decoded".into())) }
                for m2 in 0..100u32 { for d2 in 0..100u32 {
                    let text = if tag == GEN { format!("{y:04}{m2:02}{d2:02}120000Z") } else { format!("{:02}{m2:02}{d2:02}120000Z", y % 100) };
                    let b = tlv(tag, text.as_bytes());
                    let want = match model_parse(tag, text.as_bytes()) { Judged::Valid(ts) => Some((ts, 0u32)), _ => None };
                    n += 1;
                    match guard(|| (lib_take(&b).ok(), lib_take_opt(&b).ok().flatten())) {
                        Err(pn) => bad.push((b, pn)),
                        Ok((a, o)) => {
                            if a != want || o != want { if bad.len() < 8 { bad.push((b, format!("take_from gives {:?}, take_opt_from {:?}, the string names {:?}", a.map(|x| render_ts(x.0)), o.map(|x| render_ts(x.0)), want.map(|x| render_ts(x.0))))) } }
                            if want.is_some() { acc += 1 } else { rej += 1 }
                        }
                    }
                }}
                (n, acc, rej, bad)
            });
            let mut lf = Lf::new(&ctx);
            for (b, d2) in &res.3 { lf.fail("C17.history.independent", || format!("after decoding {y:04}-{mo:02}-{d:02} ({}): {}", if tag == GEN { "GeneralizedTime" } else { "UTCTime" }, show(b)), || d2.clone()) }
            sp.evals(2 * res.0); sp.nontrivial(res.0); sp.traces(1); sp.outcomes_n("valid-subject", res.1); sp.outcomes_n("invalid-subject", res.2);
        });
        sp.sample_str(|| "after decoding 2024-02-01: 20240133120000Z must still be rejected".to_string());
        sp.done(true, &format!("{} predecessors x 10000 month/day field values", preds.len()));
    }

    // ---------------------------------------------------------------- (16)
    let sp = ctx.space("environment.tz",
        "the subject set re-run in child processes of this binary with TZ = UTC, America/Los_Angeles, Pacific/Kiritimati, PST8PDT,M3.2.0,M11.1.0 and <+14>-14 (set before the process starts, so before any thread exists): every observation (decode, encode, Display / to_rfc3339 / Debug of a Time, FromStr, serde, years_from_date, verify_at, wide-window verify, Serial text and DER) must equal the observation in this process; non-trivial = every (zone, subject) pair");
    {
        let zones = ["UTC", "America/Los_Angeles", "Pacific/Kiritimati", "PST8PDT,M3.2.0,M11.1.0", "<+14>-14"];
        let exe = std::env::current_exe();
        let mut lf = Lf::new(&ctx);
        for z in zones {
            let out = exe.as_ref().ok().and_then(|e| std::process::Command::new(e).arg("--c17-observe").env("TZ", z).output().ok());
            match out {
                Some(o) if o.status.success() => {
                    let text = String::from_utf8_lossy(&o.stdout).to_string();
                    let lines: Vec<&str> = text.lines().collect();
                    if lines.len() != subj.len() { ctx.machinery_error(format!("TZ child printed {} lines for {} subjects", lines.len(), subj.len())); continue }
                    for (i, l) in lines.iter().enumerate() {
                        sp.eval(); sp.nontrivial(1);
                        let got = l.split_once('\t').map(|x| x.1).unwrap_or("");
                        if got == baseline[i].replace('\n', " ") { sp.outcome("same-as-here") } else {
                            sp.outcome("differs");
                            lf.fail("C17.environment.tz", || format!("TZ={z} subject [{}]", subj[i].0), || format!("observed {got}, in this process {}", baseline[i]));
                        }
                    }
                    sp.outcome("zone-run");
                }
                Some(o) => { sp.eval(); lf.fail("C17.environment.tz", || format!("TZ={z}"), || format!("the child process ended with {:?}: {}", o.status.code(), String::from_utf8_lossy(&o.stderr))) }
                None => ctx.machinery_error(format!("cannot run the TZ child process for {z}")),
            }
        }
    }
    sp.done(true, "5 zones x all subjects");

    let sp = ctx.space("environment.clock",
        "the argument-less clock readers after an earlier call on the same thread: each case on its own OS thread, cases in parallel; optionally prime with verify() on a wide window / Time::now(), wait {0, 20, 300, 850} ms, read now = Time::now(), then (a) the window [now, now + 1 h] must verify, (b) [now - 1 h, now - 5 ms] must not, (c) [now - 1 h, now + 200 ms] must verify now and must not after a 300 ms sleep; each verdict is compared with verify_at(Time::now()) taken immediately before and after the call and judged only when those two agree; Time::now-based constructors (now, tomorrow, five_minutes_ago, Validity::from_secs) read twice 40 ms apart must advance by at least 40 ms; non-trivial = every judged verdict");
    {
        let mut cases: Vec<(u8, u64)> = Vec::new();
        for prime in 0..3u8 { for wait in [0u64, 20, 300, 850] { cases.push((prime, wait)) } }
        let results: Vec<Vec<(String, Option<bool>, bool, String)>> = cases.par_iter().map(|&(prime, wait)| on_fresh_thread(move || {
            let ms = std::time::Duration::from_millis;
            let mut out: Vec<(String, Option<bool>, bool, String)> = Vec::new(); // (what, bracket verdict if both agree, verify(), detail)
            let r = guard(|| {
                match prime { 1 => { let _ = Validity::new(mk_time(0, 0), mk_time(4102444800, 0)).verify(); } 2 => { let _ = (Time::now(), Validity::from_secs(1).verify()); } _ => {} }
                std::thread::sleep(ms(wait));
                let mut res = Vec::new();
                let mut probe = |what: &str, w: Validity| {
                    let a = w.verify_at(Time::now()).is_ok(); let v = w.verify().is_ok(); let b = w.verify_at(Time::now()).is_ok();
                    res.push((what.to_string(), if a == b { Some(a) } else { None }, v, format!("verify_at(Time::now()) before: {a}, after: {b}")));
                };
                let now = Time::now();
                let h = TimeDelta::hours(1);
                probe("window starting now [now, now+1h]", Validity::new(now, now + h));
                probe("window that ended 5 ms ago [now-1h, now-5ms]", Validity::new(now - h, now - TimeDelta::milliseconds(5)));
                let w3 = Validity::new(now - h, now + TimeDelta::milliseconds(200));
                probe("window ending in 200 ms, asked at once", w3);
                std::thread::sleep(ms(300));
                probe("window that ended 100 ms ago (asked again after 300 ms)", w3);
                let now2 = Time::now();
                probe("window starting now, after the sleep", Validity::new(now2, now2 + h));
                // constructors must not be frozen
                for (name, f) in [("Time::now", (|| inst(Time::now())) as fn() -> (i64, u32)), ("Time::tomorrow", || inst(Time::tomorrow())), ("Time::five_minutes_ago", || inst(Time::five_minutes_ago())),
                    ("Validity::from_secs(60).not_after", || inst(Validity::from_secs(60).not_after())), ("Validity::from_secs(-60).not_before", || inst(Validity::from_secs(-60).not_before()))] {
                    let t1 = f(); std::thread::sleep(ms(40)); let t2 = f();
                    let adv = (t2.0 - t1.0) * 1_000_000_000 + t2.1 as i64 - t1.1 as i64;
                    res.push((format!("{name} read twice 40 ms apart"), Some(true), adv >= 40_000_000, format!("advanced by {adv} ns")));
                }
                res
            });
            match r { Ok(v) => out.extend(v), Err(p) => out.push(("panic".into(), Some(true), false, p)) }
            out
        })).collect();
        let mut lf = Lf::new(&ctx);
        for ((prime, wait), res) in cases.iter().zip(results.iter()) {
            for (what, want, got, detail) in res {
                sp.eval();
                match want {
                    None => sp.outcome("bracket-disagrees-unjudged"),
                    Some(w) => { sp.nontrivial(1); sp.outcome(if *got { "accepted-or-advanced" } else { "rejected" });
                        if w != got { lf.fail("C17.environment.clock", || format!("prime={} wait={wait}ms: {what}", ["nothing", "verify() on a wide window", "Time::now + from_secs(1).verify()"][*prime as usize]), || format!("the argument-less call says {got}; {detail}")) } }
                }
            }
        }
    }
    sp.done(true, "12 cases x 10 probes");

    // ---------------------------------------------------------------- (14)
    let sp = ctx.space("encode.writers",
        "the writer as a dimension of the encoders (all write through io::Write): encode_varied / encode_utc_time / encode_generalized_time of 26 instants, Validity::encode of all pairs of 6 of them, Serial::encode of every valid array with <= 2 non-zero octets, each written with write_encoded into 14 sinks (everything at once; 1, 2, 7 octets per call; first call 1 octet; ErrorKind::Interrupted once; capacity exactly the length; 1 and 3 octets short; BufWriter of capacity 8192 and 4 around a 1-per-call sink; breaking after 0 and 3 octets). Oracle: if write_encoded returns Ok the octets that arrived must decode back to the value (and equal the reference TLV); an error is acceptable only from a sink that cannot take the value; non-trivial = cases whose sink does not take everything in one call");
    {
        let sinks = SinkKind::all();
        let civ: Vec<(i64, u32, u32, u32)> = vec![(1, 1, 1, 0), (999, 12, 31, 86399), (1949, 12, 31, 86399), (1950, 1, 1, 0), (1970, 1, 1, 1), (1999, 12, 31, 86399), (2000, 2, 29, 43200),
            (2024, 2, 29, 3661), (2049, 12, 31, 86399), (2050, 1, 1, 0), (2100, 2, 28, 86399), (9999, 12, 31, 86399), (2038, 1, 19, 11647)];
        let mut lf = Lf::new(&ctx); let mut oc = Oc::new();
        let judge = |lf: &mut Lf, oc: &mut Oc, what: &dyn Fn() -> String, want: &[u8], enc: &dyn Fn(&mut dyn Write) -> io::Result<()>, back: &dyn Fn(&[u8]) -> bool| {
            for &k in &sinks {
                sp.eval(); if !matches!(k, SinkKind::Chunk(usize::MAX) | SinkKind::Exact) { sp.nontrivial(1) }
                let wit = || format!("{} sink={:?}", what(), k);
                match guard(|| k.run(want.len(), enc)) {
                    Err(p) => lf.fail("C17.encode.no_panic", wit, || p.clone()),
                    Ok((Err(e), got)) => if k.healthy() { lf.fail("C17.encode.writer", wit, || format!("write_encoded failed ({e}) on a sink that accepts everything it is given; {} of {} octets arrived", got.len(), want.len())) }
                        else { bump(oc, "error-surfaced-from-failing-sink") },
                    Ok((Ok(()), got)) => if got != want || !back(&got) {
                        lf.fail("C17.encode.writer", wit, || format!("write_encoded returned Ok but the sink holds {} ({} octets), the value encodes as {}", hex(&got), got.len(), hex(want)))
                    } else { bump(oc, "complete") },
                }
            }
        };
        for &(y, mo, d, sod) in &civ {
            let ts = days_from_civil(y, mo, d) * 86400 + sod as i64;
            let t = mk_time(ts, 0);
            let want = model_encode(y, mo, d, sod, None);
            judge(&mut lf, &mut oc, &|| format!("encode_varied {}", render_ts(ts)), &want, &|w| t.encode_varied().write_encoded(Mode::Der, &mut { w }), &|b| lib_take(b) == Ok((ts, 0)));
            let want_g = model_encode(y, mo, d, sod, Some(GEN));
            judge(&mut lf, &mut oc, &|| format!("encode_generalized_time {}", render_ts(ts)), &want_g, &|w| t.encode_generalized_time().write_encoded(Mode::Der, &mut { w }), &|b| lib_take(b) == Ok((ts, 0)));
            if (1950..=2049).contains(&y) {
                let want_u = model_encode(y, mo, d, sod, Some(UTC));
                judge(&mut lf, &mut oc, &|| format!("encode_utc_time {}", render_ts(ts)), &want_u, &|w| t.encode_utc_time().write_encoded(Mode::Der, &mut { w }), &|b| lib_take(b) == Ok((ts, 0)));
            }
        }
        for &a in civ.iter().step_by(2).take(6) { for &b in civ.iter().step_by(2).take(6) {
            let (ta, tb) = (days_from_civil(a.0, a.1, a.2) * 86400 + a.3 as i64, days_from_civil(b.0, b.1, b.2) * 86400 + b.3 as i64);
            let mut body = model_encode(a.0, a.1, a.2, a.3, None); body.extend_from_slice(&model_encode(b.0, b.1, b.2, b.3, None));
            let want = tlv(0x30, &body);
            let v = Validity::new(mk_time(ta, 0), mk_time(tb, 0));
            judge(&mut lf, &mut oc, &|| format!("Validity::encode nb={} na={}", render_ts(ta), render_ts(tb)), &want, &|w| v.encode().write_encoded(Mode::Der, &mut { w }),
                &|x| Mode::Der.decode(x, |cons| Validity::take_from(cons)).map(|r| (inst(r.not_before()), inst(r.not_after()))).ok() == Some(((ta, 0), (tb, 0))));
        }}
        for a in small.iter().filter(|a| a[0] & 0x80 == 0) {
            let s = Serial::from_array(*a).expect("valid");
            let want = tlv(0x02, &int_content(a));
            judge(&mut lf, &mut oc, &|| format!("Serial::encode array={}", hex(a)), &want, &|w| s.encode().write_encoded(Mode::Der, &mut { w }), &|b| lib_serial_take(b) == Ok(s));
        }
        sp.merge_outcomes(&oc);
        sp.set("sinks", serde_json::json!(sinks.iter().map(|k| format!("{k:?}")).collect::<Vec<_>>()));
        sp.sample_str(|| format!("encode_varied 2049-12-31T23:59:59Z sink={:?}", SinkKind::Chunk(1)));
    }
    sp.done(true, "all listed values x 14 sinks");

    emit_failures(&ctx);
    ctx.finish();
}
