//! C16 — RTR serial numbers compare and advance per RFC 1982.
//!
//! Space: all 2^32 differences from each base value (exhaustive), both
//! argument orders; all increments n < 2^31 from several bases; all 2^32
//! values for wire conversion. Oracle: the RFC 1982 definition on integers.

use std::cmp::Ordering;
use std::collections::BTreeMap;
use rpki::rtr::state::Serial;
use rpki_verif::engine::enumerate::par_chunks;
use rpki_verif::{guard, Ctx};

fn model(a: u32, b: u32) -> Option<Ordering> {
    // compare a with b: d = how far b is ahead of a (mod 2^32)
    let d = b.wrapping_sub(a);
    if d == 0 { Some(Ordering::Equal) }
    else if d < 0x8000_0000 { Some(Ordering::Less) }
    else if d == 0x8000_0000 { None }
    else { Some(Ordering::Greater) }
}

fn rev(o: Option<Ordering>) -> Option<Ordering> { o.map(|x| x.reverse()) }

fn name(o: Option<Ordering>) -> &'static str {
    match o { None => "undefined", Some(Ordering::Less) => "less", Some(Ordering::Equal) => "equal", Some(Ordering::Greater) => "greater" }
}

fn main() {
    let ctx = Ctx::new("C16", "exploration");
    ctx.assume("RFC 1982 with SERIAL_BITS = 32 is the specification");

    let bases: Vec<u32> = if ctx.tier.is_thorough() {
        vec![0, 1, 0x7FFF_FFFF, 0x8000_0000, 0x8000_0001, 0xFFFF_FFFF, 0xDEAD_BEEF, 0x7FFF_FFFFu32.wrapping_add(12345),
             2, 0xFFFF_FFFE, 0x0000_FFFF, 0x0001_0000, 0x5555_5555, 0xAAAA_AAAA, 0x4000_0000, 0xC000_0000]
    } else {
        vec![0, 0x7FFF_FFFF, 0xFFFF_FFFF]
    };

    // (1) comparison over all differences
    let sp = ctx.space("cmp.all_differences",
        "for each base b and every d in 0..2^32: partial_cmp(b, b+d), partial_cmp(b+d, b), ==, and the operators <, <=, >, >=, against the RFC 1982 integer model; non-trivial = every (b,d) pair is distinct by construction; counted: pairs with d != 0");
    for &b in &bases {
        par_chunks(1u64 << 32, 1 << 22, |lo, hi| {
            let mut local: BTreeMap<&'static str, u64> = BTreeMap::new();
            let mut bad: Option<(u32, String)> = None;
            let mut bad_ops: Option<(u32, String)> = None;
            let (mut n_less, mut n_gr, mut n_eq, mut n_un) = (0u64, 0u64, 0u64, 0u64);
            for d in lo..hi {
                let d = d as u32;
                let x = Serial(b); let y = Serial(b.wrapping_add(d));
                let got = x.partial_cmp(&y);
                let want = model(b, b.wrapping_add(d));
                let got_r = y.partial_cmp(&x);
                let eq = x == y;
                if got != want || got_r != rev(want) || eq != (d == 0) {
                    if bad.is_none() {
                        bad = Some((d, format!("partial_cmp={:?} reverse={:?} eq={} expected {:?}", got, got_r, eq, want)));
                    }
                }
                // the comparison operators (which a type may override separately from
                // partial_cmp) must tell the same story: at distance 2^31 none of them holds
                let ops = (x < y, x <= y, x > y, x >= y);
                let want_ops = match want {
                    None => (false, false, false, false),
                    Some(Ordering::Less) => (true, true, false, false),
                    Some(Ordering::Equal) => (false, true, false, true),
                    Some(Ordering::Greater) => (false, false, true, true),
                };
                if ops != want_ops && bad_ops.is_none() {
                    bad_ops = Some((d, format!("(<,<=,>,>=)={:?} expected {:?}", ops, want_ops)));
                }
                match got { None => n_un += 1, Some(Ordering::Less) => n_less += 1, Some(Ordering::Equal) => n_eq += 1, Some(Ordering::Greater) => n_gr += 1 }
            }
            local.insert("less", n_less); local.insert("greater", n_gr); local.insert("equal", n_eq); local.insert("undefined", n_un);
            local.retain(|_, v| *v > 0);
            sp.merge_outcomes(&local);
            sp.evals(2 * (hi - lo));
            sp.nontrivial(hi - lo - if lo == 0 { 1 } else { 0 });
            if let Some((d, detail)) = bad {
                ctx.fail("C16.cmp", format!("base={b:#x} d={d:#x}"), detail);
            }
            if let Some((d, detail)) = bad_ops {
                ctx.fail("C16.cmp.operators", format!("base={b:#x} d={d:#x}"), detail);
            }
        });
        sp.sample_str(|| format!("base={b:#x}: d=1 -> {}, d=0x7fffffff -> {}, d=0x80000000 -> {}, d=0x80000001 -> {}",
            name(Serial(b).partial_cmp(&Serial(b.wrapping_add(1)))),
            name(Serial(b).partial_cmp(&Serial(b.wrapping_add(0x7fff_ffff)))),
            name(Serial(b).partial_cmp(&Serial(b.wrapping_add(0x8000_0000)))),
            name(Serial(b).partial_cmp(&Serial(b.wrapping_add(0x8000_0001))))));
    }
    sp.set("bases", serde_json::json!(bases));
    sp.done(true, &format!("all 2^32 differences x {} bases x both orders", bases.len()));

    // (2) add
    let sp = ctx.space("add.all_increments",
        "for each base b and every n in 0..2^31: b.add(n) == b+n mod 2^32 and (n>0 => b.add(n) > b, b < b.add(n)); n >= 2^31 must panic (boundary values); non-trivial = n > 0");
    let add_bases: Vec<u32> = if ctx.tier.is_thorough() { bases.clone() } else { vec![0x8000_0001, 0xFFFF_FFFF] };
    for &b in &add_bases {
        par_chunks(1u64 << 31, 1 << 22, |lo, hi| {
            let mut bad = None;
            // a panic inside a permitted add is a violation, not a crash of the explorer:
            // the chunk runs under a guard and is re-walked element-wise to name the first n
            let scan = |from: u64, to: u64, bad: &mut Option<(u32, String)>| {
                for n in from..to {
                    let n = n as u32;
                    let r = Serial(b).add(n);
                    let ok = r.0 == b.wrapping_add(n)
                        && if n == 0 { r == Serial(b) } else {
                            r.partial_cmp(&Serial(b)) == Some(Ordering::Greater)
                            && Serial(b).partial_cmp(&r) == Some(Ordering::Less)
                            && r > Serial(b) && Serial(b) < r };
                    if !ok && bad.is_none() { *bad = Some((n, format!("add gave {:#x}, cmp to base {:?}", r.0, r.partial_cmp(&Serial(b))))); }
                }
            };
            if guard(|| scan(lo, hi, &mut bad)).is_err() {
                for n in lo..hi {
                    if let Err(p) = guard(|| Serial(b).add(n as u32)) {
                        ctx.fail("C16.add.nopanic", format!("base={b:#x} n={:#x}", n as u32), format!("permitted increment (n < 2^31) panics: {p}"));
                        break;
                    }
                }
            }
            sp.evals(hi - lo);
            sp.nontrivial(hi - lo - if lo == 0 { 1 } else { 0 });
            if let Some((n, d)) = bad { ctx.fail("C16.add", format!("base={b:#x} n={n:#x}"), d); }
        });
    }
    sp.outcomes_n("greater-after-add", sp.get_nontrivial());
    for &b in &add_bases {
        for n in [0x8000_0000u32, 0x8000_0001, 0xFFFF_FFFF, 0xC000_0000] {
            sp.eval();
            match guard(|| Serial(b).add(n)) {
                Err(_) => sp.outcome("panic-on-too-large-increment"),
                Ok(r) => {
                    sp.outcome("accepted-too-large-increment");
                    ctx.fail("C16.add.domain", format!("base={b:#x} n={n:#x}"), format!("add of n >= 2^31 returned {:#x} instead of panicking", r.0));
                }
            }
        }
    }
    sp.sample_str(|| format!("Serial(0xffffffff).add(1) = {}", Serial(0xFFFF_FFFF).add(1)));
    sp.done(true, &format!("all n < 2^31 x {} bases", add_bases.len()));

    // (3) wire conversion
    let sp = ctx.space("wire.all_values",
        "for every x in 0..2^32: to_be has the memory layout of x.to_be_bytes(), from_be inverts it, u32 conversions and Display/FromStr (every 65537th) are lossless; non-trivial = x whose big-endian and native forms differ");
    par_chunks(1u64 << 32, 1 << 22, |lo, hi| {
        let mut bad = None; let mut nt = 0u64;
        for x in lo..hi {
            let x = x as u32;
            let s = Serial(x);
            let wire = s.to_be();
            let ok = wire.to_ne_bytes() == x.to_be_bytes()
                && Serial::from_be(wire) == s
                && Serial::from_be(u32::from_ne_bytes(x.to_be_bytes())).0 == x
                && u32::from(Serial::from(x)) == x;
            if wire != x { nt += 1 }
            if !ok && bad.is_none() { bad = Some(x) }
            if x % 65537 == 0 {
                let t = s.to_string();
                if t != x.to_string() || t.parse::<Serial>().ok() != Some(s) { bad = Some(x) }
            }
        }
        sp.evals(hi - lo); sp.nontrivial(nt);
        if let Some(x) = bad { ctx.fail("C16.wire", format!("x={x:#x}"), "to_be/from_be/Display round trip mismatch"); }
    });
    sp.sample_str(|| format!("Serial(1).to_be() bytes = {:?}", Serial(1).to_be().to_ne_bytes()));
    sp.done(true, "all 2^32 values");

    // (4) transitivity-free structural laws on a boundary domain: antisymmetry and
    // dependence on the difference only (all pairs of a 64-point domain x 64 shifts)
    let sp = ctx.space("cmp.shift_invariance",
        "all pairs (a,b) from a 40-point boundary domain x 40 shifts s: partial_cmp(a+s, b+s) == partial_cmp(a, b); non-trivial = a != b");
    let dom: Vec<u32> = {
        let mut v = vec![];
        for c in [0u32, 0x7FFF_FFFF, 0x8000_0000, 0xFFFF_FFFF, 0x4000_0000, 0xC000_0000, 0x1234_5678, 0x0001_0000] {
            for k in [0u32, 1, 2, u32::MAX, u32::MAX - 1] { v.push(c.wrapping_add(k)) }
        }
        v.sort(); v.dedup(); v
    };
    let mut oc: BTreeMap<&'static str, u64> = BTreeMap::new();
    for &a in &dom { for &b in &dom { for &s in &dom {
        sp.eval(); if a != b { sp.nontrivial(1) }
        let base = Serial(a).partial_cmp(&Serial(b));
        let shifted = Serial(a.wrapping_add(s)).partial_cmp(&Serial(b.wrapping_add(s)));
        *oc.entry(name(base)).or_insert(0) += 1;
        if base != shifted {
            ctx.fail("C16.cmp.shift", format!("a={a:#x} b={b:#x} s={s:#x}"), format!("{:?} vs shifted {:?}", base, shifted));
        }
    }}}
    sp.merge_outcomes(&oc);
    sp.sample_str(|| format!("domain of {} points", dom.len()));
    sp.done(true, "all pairs x all shifts of the boundary domain");

    ctx.finish();
}
