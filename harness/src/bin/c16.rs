//! C16 — RTR serial numbers compare and advance per RFC 1982.
//!
//! Space: all 2^32 differences from each base value (exhaustive), both
//! argument orders; all increments n < 2^31 from several bases; all 2^32
//! values for wire conversion. Oracle: the RFC 1982 definition on integers.

use std::cmp::Ordering;
use std::collections::BTreeMap;
use rpki::rtr::state::{Serial, State};
use rpki_verif::engine::enumerate::par_chunks;
use rayon::prelude::*;
use rpki_verif::{guard, Ctx};

fn model(a: u32, b: u32) -> Option<Ordering> {
    // compare a with b: d = how far b is ahead of a (mod 2^32)
    let d = b.wrapping_sub(a);
    if d == 0 { Some(Ordering::Equal) }
    else if d < 0x8000_0000 { Some(Ordering::Less) }
    else if d == 0x8000_0000 { None }
    else { Some(Ordering::Greater) }
}

fn rev(o: Option<Ordering>) -> Option<Ordering> { o.map(|x| x.reverse()) }

fn name(o: Option<Ordering>) -> &'static str {
    match o { None => "undefined", Some(Ordering::Less) => "less", Some(Ordering::Equal) => "equal", Some(Ordering::Greater) => "greater" }
}

fn main() {
    let ctx = Ctx::new("C16", "exploration");
    ctx.assume("RFC 1982 with SERIAL_BITS = 32 is the specification");

    let bases: Vec<u32> = if ctx.tier.is_thorough() {
        vec![0, 1, 0x7FFF_FFFF, 0x8000_0000, 0x8000_0001, 0xFFFF_FFFF, 0xDEAD_BEEF, 0x7FFF_FFFFu32.wrapping_add(12345),
             2, 0xFFFF_FFFE, 0x0000_FFFF, 0x0001_0000, 0x5555_5555, 0xAAAA_AAAA, 0x4000_0000, 0xC000_0000]
    } else {
        vec![0x7FFF_FFFF, 0xFFFF_FFFF]
    };

    // (1) comparison over all differences
    let sp = ctx.space("cmp.all_differences",
        "for each base b and every d in 0..2^32: partial_cmp(b, b+d), partial_cmp(b+d, b), ==, and the operators <, <=, >, >=, against the RFC 1982 integer model; non-trivial = every (b,d) pair is distinct by construction; counted: pairs with d != 0");
    for &b in &bases {
        par_chunks(1u64 << 32, 1 << 22, |lo, hi| {
            let mut local: BTreeMap<&'static str, u64> = BTreeMap::new();
            let mut bad: Option<(u32, String)> = None;
            let mut bad_ops: Option<(u32, String)> = None;
            let (mut n_less, mut n_gr, mut n_eq, mut n_un) = (0u64, 0u64, 0u64, 0u64);
            for d in lo..hi {
                let d = d as u32;
                let x = Serial(b); let y = Serial(b.wrapping_add(d));
                let got = x.partial_cmp(&y);
                let want = model(b, b.wrapping_add(d));
                let got_r = y.partial_cmp(&x);
                let eq = x == y;
                if got != want || got_r != rev(want) || eq != (d == 0) {
                    if bad.is_none() {
                        bad = Some((d, format!("partial_cmp={:?} reverse={:?} eq={} expected {:?}", got, got_r, eq, want)));
                    }
                }
                // the comparison operators (which a type may override separately from
                // partial_cmp) must tell the same story: at distance 2^31 none of them holds
                let ops = (x < y, x <= y, x > y, x >= y);
                let want_ops = match want {
                    None => (false, false, false, false),
                    Some(Ordering::Less) => (true, true, false, false),
                    Some(Ordering::Equal) => (false, true, false, true),
                    Some(Ordering::Greater) => (false, false, true, true),
                };
                if ops != want_ops && bad_ops.is_none() {
                    bad_ops = Some((d, format!("(<,<=,>,>=)={:?} expected {:?}", ops, want_ops)));
                }
                match got { None => n_un += 1, Some(Ordering::Less) => n_less += 1, Some(Ordering::Equal) => n_eq += 1, Some(Ordering::Greater) => n_gr += 1 }
            }
            local.insert("less", n_less); local.insert("greater", n_gr); local.insert("equal", n_eq); local.insert("undefined", n_un);
            local.retain(|_, v| *v > 0);
            sp.merge_outcomes(&local);
            sp.evals(2 * (hi - lo));
            sp.nontrivial(hi - lo - if lo == 0 { 1 } else { 0 });
            if let Some((d, detail)) = bad {
                ctx.fail("C16.cmp", format!("base={b:#x} d={d:#x}"), detail);
            }
            if let Some((d, detail)) = bad_ops {
                ctx.fail("C16.cmp.operators", format!("base={b:#x} d={d:#x}"), detail);
            }
        });
        sp.sample_str(|| format!("base={b:#x}: d=1 -> {}, d=0x7fffffff -> {}, d=0x80000000 -> {}, d=0x80000001 -> {}",
            name(Serial(b).partial_cmp(&Serial(b.wrapping_add(1)))),
            name(Serial(b).partial_cmp(&Serial(b.wrapping_add(0x7fff_ffff)))),
            name(Serial(b).partial_cmp(&Serial(b.wrapping_add(0x8000_0000)))),
            name(Serial(b).partial_cmp(&Serial(b.wrapping_add(0x8000_0001))))));
    }
    sp.set("bases", serde_json::json!(bases));
    sp.done(true, &format!("all 2^32 differences x {} bases x both orders", bases.len()));

    // (2) add
    let sp = ctx.space("add.all_increments",
        "for each base b and every n in 0..2^31: b.add(n) == b+n mod 2^32 and (n>0 => b.add(n) > b, b < b.add(n)); n >= 2^31 must panic (boundary values); non-trivial = n > 0");
    let add_bases: Vec<u32> = if ctx.tier.is_thorough() { bases.clone() } else { vec![0xFFFF_FFFF] };
    for &b in &add_bases {
        par_chunks(1u64 << 31, 1 << 22, |lo, hi| {
            let mut bad = None;
            // a panic inside a permitted add is a violation, not a crash of the explorer:
            // the chunk runs under a guard and is re-walked element-wise to name the first n
            let scan = |from: u64, to: u64, bad: &mut Option<(u32, String)>| {
                for n in from..to {
                    let n = n as u32;
                    let r = Serial(b).add(n);
                    let ok = r.0 == b.wrapping_add(n)
                        && if n == 0 { r == Serial(b) } else {
                            r.partial_cmp(&Serial(b)) == Some(Ordering::Greater)
                            && Serial(b).partial_cmp(&r) == Some(Ordering::Less)
                            && r > Serial(b) && Serial(b) < r };
                    if !ok && bad.is_none() { *bad = Some((n, format!("add gave {:#x}, cmp to base {:?}", r.0, r.partial_cmp(&Serial(b))))); }
                }
            };
            if guard(|| scan(lo, hi, &mut bad)).is_err() {
                for n in lo..hi {
                    if let Err(p) = guard(|| Serial(b).add(n as u32)) {
                        ctx.fail("C16.add.nopanic", format!("base={b:#x} n={:#x}", n as u32), format!("permitted increment (n < 2^31) panics: {p}"));
                        break;
                    }
                }
            }
            sp.evals(hi - lo);
            sp.nontrivial(hi - lo - if lo == 0 { 1 } else { 0 });
            if let Some((n, d)) = bad { ctx.fail("C16.add", format!("base={b:#x} n={n:#x}"), d); }
        });
    }
    sp.outcomes_n("greater-after-add", sp.get_nontrivial());
    for &b in &add_bases {
        for n in [0x8000_0000u32, 0x8000_0001, 0xFFFF_FFFF, 0xC000_0000] {
            sp.eval();
            match guard(|| Serial(b).add(n)) {
                Err(_) => sp.outcome("panic-on-too-large-increment"),
                Ok(r) => {
                    sp.outcome("accepted-too-large-increment");
                    ctx.fail("C16.add.domain", format!("base={b:#x} n={n:#x}"), format!("add of n >= 2^31 returned {:#x} instead of panicking", r.0));
                }
            }
        }
    }
    sp.sample_str(|| format!("Serial(0xffffffff).add(1) = {}", Serial(0xFFFF_FFFF).add(1)));
    sp.done(true, &format!("all n < 2^31 x {} bases", add_bases.len()));

    // (3) wire conversion
    let sp = ctx.space("wire.all_values",
        "for every x in 0..2^32: to_be has the memory layout of x.to_be_bytes(), from_be inverts it, u32 conversions and Display/FromStr (every 65537th) are lossless; non-trivial = x whose big-endian and native forms differ");
    par_chunks(1u64 << 32, 1 << 22, |lo, hi| {
        let mut bad = None; let mut nt = 0u64;
        for x in lo..hi {
            let x = x as u32;
            let s = Serial(x);
            let wire = s.to_be();
            let ok = wire.to_ne_bytes() == x.to_be_bytes()
                && Serial::from_be(wire) == s
                && Serial::from_be(u32::from_ne_bytes(x.to_be_bytes())).0 == x
                && u32::from(Serial::from(x)) == x;
            if wire != x { nt += 1 }
            if !ok && bad.is_none() { bad = Some(x) }
            if x % 65537 == 0 {
                let t = s.to_string();
                if t != x.to_string() || t.parse::<Serial>().ok() != Some(s) { bad = Some(x) }
            }
        }
        sp.evals(hi - lo); sp.nontrivial(nt);
        if let Some(x) = bad { ctx.fail("C16.wire", format!("x={x:#x}"), "to_be/from_be/Display round trip mismatch"); }
    });
    sp.sample_str(|| format!("Serial(1).to_be() bytes = {:?}", Serial(1).to_be().to_ne_bytes()));
    sp.done(true, "all 2^32 values");

    // (4) transitivity-free structural laws on a boundary domain: antisymmetry and
    // dependence on the difference only (all pairs of a 64-point domain x 64 shifts)
    let sp = ctx.space("cmp.shift_invariance",
        "all pairs (a,b) from a 40-point boundary domain x 40 shifts s: partial_cmp(a+s, b+s) == partial_cmp(a, b); non-trivial = a != b");
    let dom: Vec<u32> = {
        let mut v = vec![];
        for c in [0u32, 0x7FFF_FFFF, 0x8000_0000, 0xFFFF_FFFF, 0x4000_0000, 0xC000_0000, 0x1234_5678, 0x0001_0000] {
            for k in [0u32, 1, 2, u32::MAX, u32::MAX - 1] { v.push(c.wrapping_add(k)) }
        }
        v.sort(); v.dedup(); v
    };
    let mut oc: BTreeMap<&'static str, u64> = BTreeMap::new();
    for &a in &dom { for &b in &dom { for &s in &dom {
        sp.eval(); if a != b { sp.nontrivial(1) }
        let base = Serial(a).partial_cmp(&Serial(b));
        let shifted = Serial(a.wrapping_add(s)).partial_cmp(&Serial(b.wrapping_add(s)));
        *oc.entry(name(base)).or_insert(0) += 1;
        if base != shifted {
            ctx.fail("C16.cmp.shift", format!("a={a:#x} b={b:#x} s={s:#x}"), format!("{:?} vs shifted {:?}", base, shifted));
        }
    }}}
    sp.merge_outcomes(&oc);
    sp.sample_str(|| format!("domain of {} points", dom.len()));
    sp.done(true, "all pairs x all shifts of the boundary domain");

    // (5) the library's own way of advancing a serial: State::inc, for every serial
    let sp = ctx.space("state.inc.all_values",
        "for every x in 0..2^32: State::from_parts(s, x).inc() leaves the session alone and yields serial x+1 mod 2^32, which compares strictly greater than x; non-trivial = every x (distinct), the wrap at x = 2^32-1 included");
    par_chunks(1u64 << 32, 1 << 22, |lo, hi| {
        let mut bad: Option<(u32, String)> = None;
        let r = guard(|| {
            for x in lo..hi {
                let x = x as u32;
                let mut st = State::from_parts(0x1234, Serial(x));
                st.inc();
                let ok = st.session() == 0x1234 && st.serial().0 == x.wrapping_add(1)
                    && st.serial().partial_cmp(&Serial(x)) == Some(Ordering::Greater);
                if !ok && bad.is_none() { bad = Some((x, format!("after inc: session={:#x} serial={:#x}", st.session(), st.serial().0))); }
            }
        });
        if let Err(p) = r { ctx.fail("C16.state.inc", format!("chunk={lo:#x}..{hi:#x}"), p) }
        sp.evals(hi - lo); sp.nontrivial(hi - lo);
        if let Some((x, d)) = bad { ctx.fail("C16.state.inc", format!("x={x:#x}"), d); }
    });
    sp.outcomes_n("advanced", (1u64 << 32) - 1); sp.outcomes_n("wrapped-to-zero", 1);
    sp.sample_str(|| { let mut st = State::from_parts(1, Serial(u32::MAX)); st.inc(); format!("State(1, 0xffffffff).inc() -> serial {}", st.serial()) });
    sp.done(true, "all 2^32 serials");

    // (6) wire conversion as the PDUs do it: every PDU that carries a serial
    let sp = ctx.space("wire.pdus",
        "for every serial of a boundary-dense set (all octet patterns from {00,01,7f,80,fe,ff}^4 plus all multiples of 65537) x versions 0..2: SerialNotify, SerialQuery, SerialQueryPayload and EndOfData written by the library carry the serial as 4 big-endian octets at offset 8 (offset 0 for the bare payload) and read back to the same serial via serial()/state(); non-trivial = serials whose 4 octets are not a palindrome");
    let mut serials: Vec<u32> = Vec::new();
    let pat = [0x00u8, 0x01, 0x7f, 0x80, 0xfe, 0xff];
    for a in pat { for b in pat { for c in pat { for d in pat { serials.push(u32::from_be_bytes([a, b, c, d])) } } } }
    let mut k = 0u64; while k < (1u64 << 32) { serials.push(k as u32); k += 65537; }
    serials.sort(); serials.dedup();
    let timing = rpki::rtr::payload::Timing { refresh: 3600, retry: 600, expire: 7200 };
    let nt = std::sync::atomic::AtomicU64::new(0);
    rpki_verif::engine::enumerate::par_for(serials.len() as u64, |i| {
        let x = serials[i as usize];
        let be = x.to_be_bytes();
        if be != [be[3], be[2], be[1], be[0]] { nt.fetch_add(3, std::sync::atomic::Ordering::Relaxed); }
        for version in 0u8..=2 {
            let st = State::from_parts(0xBEEF, Serial(x));
            let wit = || format!("serial={x:#010x} version={version}");
            let r = guard(|| -> Result<(), String> {
                use futures_util::FutureExt;
                use rpki::rtr::pdu;
                let mut out: Vec<u8> = Vec::new();
                pdu::SerialNotify::new(version, st).write(&mut out).now_or_never().ok_or("write pending")?.map_err(|e| e.to_string())?;
                if out.len() != 12 || out[8..12] != be { return Err(format!("SerialNotify wire {:02x?}", out)) }
                let back = pdu::SerialNotify::read(&mut &out[..]).now_or_never().ok_or("read pending")?.map_err(|e| e.to_string())?;
                if back != pdu::SerialNotify::new(version, st) { return Err("SerialNotify does not read back equal".into()) }
                let mut out: Vec<u8> = Vec::new();
                pdu::SerialQuery::new(version, st).write(&mut out).now_or_never().ok_or("write pending")?.map_err(|e| e.to_string())?;
                if out.len() != 12 || out[8..12] != be { return Err(format!("SerialQuery wire {:02x?}", out)) }
                let pl = pdu::SerialQueryPayload::read(&mut &out[8..]).now_or_never().ok_or("read pending")?.map_err(|e| e.to_string())?;
                if pl.serial() != Serial(x) || pdu::SerialQueryPayload::new(Serial(x)).serial() != Serial(x) { return Err(format!("SerialQueryPayload reads serial {:#x}", pl.serial().0)) }
                let mut out: Vec<u8> = Vec::new();
                let eod = pdu::EndOfData::new(version, st, timing);
                eod.write(&mut out).now_or_never().ok_or("write pending")?.map_err(|e| e.to_string())?;
                let want_len = if version == 0 { 12 } else { 24 };
                if out.len() != want_len || out[8..12] != be { return Err(format!("EndOfData wire {:02x?}", out)) }
                if eod.serial() != Serial(x) || eod.state().serial() != Serial(x) || eod.state().session() != 0xBEEF { return Err(format!("EndOfData::serial() of a built PDU gives {:#x}", eod.serial().0)) }
                let hdr = pdu::Header::read(&mut &out[..8]).now_or_never().ok_or("read pending")?.map_err(|e| e.to_string())?;
                let back = pdu::EndOfData::read_payload(hdr, &mut &out[8..]).now_or_never().ok_or("read pending")?.map_err(|e| e.to_string())?;
                if back.serial() != Serial(x) || back.state().serial() != Serial(x) || back.session() != 0xBEEF { return Err(format!("EndOfData read back gives serial {:#x}", back.serial().0)) }
                Ok(())
            });
            sp.eval();
            match r {
                Ok(Ok(())) => {}
                Ok(Err(d)) => ctx.fail("C16.wire.pdu", wit(), d),
                Err(p) => ctx.fail("C16.wire.pdu", wit(), p),
            }
        }
    });
    // the session-starting constructors keep the serial they are given (their session id comes from the clock)
    for &x in serials.iter().step_by(97) {
        sp.eval();
        if State::new_with_serial(Serial(x)).serial() != Serial(x) { ctx.fail("C16.state.new_with_serial", format!("serial={x:#x}"), "serial not kept") }
    }
    sp.eval();
    if State::new().serial() != Serial(0) || State::default().serial() != Serial(0) || Serial::default() != Serial(0) { ctx.fail("C16.state.new", "State::new()", "initial serial is not 0") }
    sp.nontrivial(nt.load(std::sync::atomic::Ordering::Relaxed));
    sp.outcomes_n("v0-end-of-data-12-octets", serials.len() as u64); sp.outcomes_n("v1v2-end-of-data-24-octets", 2 * serials.len() as u64);
    sp.sample_str(|| format!("{} serials x 3 versions x 4 PDU kinds", serials.len()));
    sp.done(true, "all serials of the stated set");

    //---------------------------------------------------------------- several PDUs in one stream
    {
        use futures_util::FutureExt;
        use rpki::rtr::pdu;
        let sp = ctx.space("wire.streams",
            "every sequence of 2 and 3 PDUs over {SerialNotify, SerialQuery, EndOfData v0, EndOfData v1/v2, CacheResponse, ResetQuery, CacheReset, Error (embedded PDU of 0/12 octets x text of 0/5 octets)} with pairwise different serials from {0, 0x7fffffff, 0x80000000, 0xffffffff, 0x01020304}, written by the library into ONE buffer and read back from ONE reader, each PDU by each of its read routes {read, try_read, Header::read + read_payload; for an Error PDU: Header::read + Error::skip_payload, and try_read of seven other concrete types followed by Error::skip_payload}; oracle: every serial comes back as written, every PDU reads back equal, and the reader is empty exactly after the last PDU (a reader that looks ahead or consumes too much loses the serial of the PDU queued behind); non-trivial = every sequence");
        #[derive(Clone, Copy, Debug, PartialEq)]
        enum It { Sn, Sq, Eod0, Eod1, Cresp, Rq, Cr, Err(usize, usize) }
        let alphabet = [It::Sn, It::Sq, It::Eod0, It::Eod1, It::Cresp, It::Rq, It::Cr, It::Err(0, 0), It::Err(12, 0), It::Err(0, 5), It::Err(12, 5)];
        let serial_pool = [0u32, 0x7fff_ffff, 0x8000_0000, 0xffff_ffff, 0x0102_0304];
        let timing = rpki::rtr::payload::Timing { refresh: 3600, retry: 600, expire: 7200 };
        let write = |it: It, x: u32, out: &mut Vec<u8>| -> Result<(), String> {
            let st = State::from_parts(0xBEEF, Serial(x));
            let r = match it {
                It::Sn => pdu::SerialNotify::new(1, st).write(out).now_or_never(),
                It::Sq => pdu::SerialQuery::new(1, st).write(out).now_or_never(),
                It::Eod0 => pdu::EndOfData::new(0, st, timing).write(out).now_or_never(),
                It::Eod1 => pdu::EndOfData::new(1, st, timing).write(out).now_or_never(),
                It::Cresp => pdu::CacheResponse::new(1, st).write(out).now_or_never(),
                It::Rq => pdu::ResetQuery::new(1).write(out).now_or_never(),
                It::Cr => pdu::CacheReset::new(1).write(out).now_or_never(),
                It::Err(p, t) => pdu::Error::new(1, 2, vec![0xabu8; p], vec![b'x'; t]).write(out).now_or_never(),
            };
            r.ok_or("write pending")?.map_err(|e| e.to_string())
        };
        // reads one item by route `route`; returns the serial found (if the item carries one)
        fn read_item<R: tokio::io::AsyncRead + Unpin>(it: It, route: u8, rd: &mut R) -> Result<Option<u32>, String> {
            use futures_util::FutureExt;
            use rpki::rtr::pdu;
            macro_rules! conc { ($t:ty, $get:expr) => {{
                let v: $t = match route {
                    0 => <$t>::read(rd).now_or_never().ok_or("read pending")?.map_err(|e| format!("read: {e}"))?,
                    1 => <$t>::try_read(rd).now_or_never().ok_or("read pending")?.map_err(|e| format!("try_read: {e}"))?.map_err(|_| "try_read returned a foreign header".to_string())?,
                    _ => { let h = pdu::Header::read(rd).now_or_never().ok_or("read pending")?.map_err(|e| format!("Header::read: {e}"))?;
                           <$t>::read_payload(h, rd).now_or_never().ok_or("read pending")?.map_err(|e| format!("read_payload: {e}"))? }
                };
                #[allow(clippy::redundant_closure_call)]
                Ok(($get)(&v))
            }} }
            match it {
                It::Sn => conc!(pdu::SerialNotify, |v: &pdu::SerialNotify| Some(u32::from_be_bytes(v.as_ref()[8..12].try_into().unwrap()))),
                It::Sq => conc!(pdu::SerialQuery, |v: &pdu::SerialQuery| Some(u32::from_be_bytes(v.as_ref()[8..12].try_into().unwrap()))),
                It::Eod0 => conc!(pdu::EndOfDataV0, |v: &pdu::EndOfDataV0| Some(v.serial().0)),
                It::Eod1 => conc!(pdu::EndOfDataV1, |v: &pdu::EndOfDataV1| Some(v.serial().0)),
                It::Cresp => conc!(pdu::CacheResponse, |_v: &pdu::CacheResponse| None),
                It::Rq => conc!(pdu::ResetQuery, |_v: &pdu::ResetQuery| None),
                It::Cr => conc!(pdu::CacheReset, |_v: &pdu::CacheReset| None),
                It::Err(p, t) => {
                    match route {
                        0 | 1 => { let h = pdu::Header::read(rd).now_or_never().ok_or("read pending")?.map_err(|e| format!("Header::read: {e}"))?;
                               if h.length() as usize != 16 + p + t { return Err(format!("Error PDU of {} octets announces {}", 16 + p + t, h.length())) }
                               pdu::Error::skip_payload(h, rd).now_or_never().ok_or("read pending")?.map_err(|e| format!("skip_payload: {e}"))? }
                        // a client expecting some concrete PDU meets the Error PDU, gets its header back and skips it
                        r => {
                            macro_rules! expect { ($t:ty) => { <$t>::try_read(rd).now_or_never().ok_or("read pending")?.map_err(|e| format!("try_read: {e}"))?.err().ok_or("try_read took an Error PDU for its own type")? } }
                            let h = match r { 2 => expect!(pdu::SerialNotify), 3 => expect!(pdu::EndOfDataV0), 4 => expect!(pdu::EndOfDataV1), 5 => expect!(pdu::CacheResponse), 6 => expect!(pdu::CacheReset), 7 => expect!(pdu::Ipv4Prefix), _ => expect!(pdu::Ipv6Prefix) };
                            pdu::Error::skip_payload(h, rd).now_or_never().ok_or("read pending")?.map_err(|e| format!("skip_payload: {e}"))?
                        }
                    }
                    Ok(None)
                }
            }
        }
        let read = |it: It, route: u8, rd: &mut &[u8]| -> Result<Option<u32>, String> { read_item(it, route, rd) };
        let routes = |it: It| -> u8 { if matches!(it, It::Err(..)) { 9 } else { 3 } };
        let mut seqs: Vec<Vec<It>> = Vec::new();
        for a in alphabet { for b in alphabet { seqs.push(vec![a, b]); for c in alphabet { seqs.push(vec![a, b, c]) } } }
        seqs.par_iter().for_each(|seq| {
            for rot in 0..serial_pool.len() {
                let xs: Vec<u32> = (0..seq.len()).map(|i| serial_pool[(rot + i) % serial_pool.len()]).collect();
                let mut buf = Vec::new();
                if let Err(e) = guard(|| seq.iter().zip(&xs).try_for_each(|(it, x)| write(*it, *x, &mut buf))).and_then(|r| r) { ctx.fail("C16.wire.stream", format!("{seq:?} serials={xs:x?}"), format!("write: {e}")); continue }
                // every combination of read routes
                let nr: Vec<u8> = seq.iter().map(|it| routes(*it)).collect();
                let total: u32 = nr.iter().map(|n| *n as u32).product();
                for combo in 0..total {
                    let mut c = combo; let rs: Vec<u8> = nr.iter().map(|n| { let r = (c % *n as u32) as u8; c /= *n as u32; r }).collect();
                    sp.eval();
                    let wit = || format!("{seq:?} serials={xs:x?} routes={rs:?}");
                    let r = guard(|| -> Result<(), String> {
                        let mut rd = &buf[..];
                        for (k, it) in seq.iter().enumerate() {
                            let got = read(*it, rs[k], &mut rd).map_err(|e| format!("PDU #{k}: {e}"))?;
                            if let Some(g) = got { if g != xs[k] { return Err(format!("PDU #{k}: serial written {:#x}, read {g:#x}", xs[k])) } }
                        }
                        if !rd.is_empty() { return Err(format!("{} octets left in the reader after the last PDU", rd.len())) }
                        Ok(())
                    });
                    match r { Ok(Ok(())) => {}, Ok(Err(d)) => ctx.fail("C16.wire.stream", wit(), d), Err(p) => ctx.fail("C16.wire.stream", wit(), p) }
                }
            }
            sp.nontrivial(1);
        });
        sp.outcomes_n("sequences-of-2", (alphabet.len() * alphabet.len()) as u64); sp.outcomes_n("sequences-of-3", (alphabet.len().pow(3)) as u64);
        sp.sample_str(|| "[Err(12, 5), Eod1, Sn] read by try_read(Ipv4Prefix)+skip_payload, Header::read+read_payload, read".into());
        sp.done(true, "all sequences of length 2 and 3 x 5 serial rotations x all combinations of read routes");

        // fragmentation: the same PDUs arriving in pieces
        struct Chunked { data: Vec<u8>, cuts: Vec<usize>, pos: usize }
        impl tokio::io::AsyncRead for Chunked {
            fn poll_read(mut self: std::pin::Pin<&mut Self>, _cx: &mut std::task::Context<'_>, buf: &mut tokio::io::ReadBuf<'_>) -> std::task::Poll<std::io::Result<()>> {
                let end = self.cuts.iter().copied().find(|c| *c > self.pos).unwrap_or(self.data.len());
                let n = buf.remaining().min(end - self.pos);
                let (a, b) = (self.pos, self.pos + n);
                buf.put_slice(&self.data[a..b]);
                self.pos = b;
                std::task::Poll::Ready(Ok(()))
            }
        }
        let sp2 = ctx.space("wire.fragments",
            "every single PDU of the alphabet and every sequence of two, with serials from the pool, delivered by a reader that hands out the octets in pieces: one cut at EVERY octet position of the stream and, for single PDUs, every pair of cut positions (so a boundary falls inside the header, between header and payload, and inside the 4-octet serial), read by every read route; oracle as in wire.streams: every serial comes back as written and the reader is empty exactly after the last PDU; non-trivial = (stream, cuts) with a cut strictly inside a PDU");
        let mut streams: Vec<Vec<It>> = alphabet.iter().map(|a| vec![*a]).collect();
        for a in alphabet { for b in alphabet { streams.push(vec![a, b]) } }
        streams.par_iter().for_each(|seq| {
            for rot in 0..serial_pool.len() {
                let xs: Vec<u32> = (0..seq.len()).map(|i| serial_pool[(rot + i) % serial_pool.len()]).collect();
                let mut buf = Vec::new();
                if let Err(e) = guard(|| seq.iter().zip(&xs).try_for_each(|(it, x)| write(*it, *x, &mut buf))).and_then(|r| r) { ctx.fail("C16.wire.fragments", format!("{seq:?} serials={xs:x?}"), format!("write: {e}")); continue }
                let n = buf.len();
                let mut cutsets: Vec<Vec<usize>> = (1..n).map(|c| vec![c]).collect();
                if seq.len() == 1 { for a in 1..n { for b in a + 1..n { cutsets.push(vec![a, b]) } } }
                let nr: Vec<u8> = seq.iter().map(|it| routes(*it)).collect();
                let total: u32 = nr.iter().map(|n| *n as u32).product();
                for cuts in &cutsets { for combo in 0..total {
                    let mut c = combo; let rs: Vec<u8> = nr.iter().map(|n| { let r = (c % *n as u32) as u8; c /= *n as u32; r }).collect();
                    sp2.eval(); sp2.nontrivial(1);
                    let wit = || format!("{seq:?} serials={xs:x?} routes={rs:?} cuts={cuts:?} of {n} octets");
                    let r = guard(|| -> Result<(), String> {
                        let mut rd = Chunked { data: buf.clone(), cuts: cuts.clone(), pos: 0 };
                        for (k, it) in seq.iter().enumerate() {
                            let got = read_item(*it, rs[k], &mut rd).map_err(|e| format!("PDU #{k}: {e}"))?;
                            if let Some(g) = got { if g != xs[k] { return Err(format!("PDU #{k}: serial written {:#x}, read {g:#x}", xs[k])) } }
                        }
                        if rd.pos != rd.data.len() { return Err(format!("{} octets left in the reader after the last PDU", rd.data.len() - rd.pos)) }
                        Ok(())
                    });
                    match r { Ok(Ok(())) => {}, Ok(Err(d)) => ctx.fail("C16.wire.fragments", wit(), d), Err(p) => ctx.fail("C16.wire.fragments", wit(), p) }
                }}
            }
        });
        sp2.outcomes_n("single-pdu-streams", alphabet.len() as u64); sp2.outcomes_n("two-pdu-streams", (alphabet.len() * alphabet.len()) as u64);
        sp2.sample_str(|| "[Eod1] serials=[80000000] routes=[2] cuts=[8, 10] of 24 octets: header, then two octets of the serial, then the rest".into());
        sp2.done(true, "all streams of 1 and 2 PDUs x 5 serial rotations x every cut position (pairs for single PDUs) x all combinations of read routes");
    }

    ctx.finish();
}
