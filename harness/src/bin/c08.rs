//! C08 — RTR server answers depend on the query bytes, not on how they arrive.
//!
//! Space (schedules): the real `Server::run` with a one-element listener, one
//! scripted socket and the real `NotifySender`, on E3's current-thread
//! paused-clock runtime. Client byte streams: every sequence of <= 3 PDUs over
//! a 10-symbol alphabet (well-formed queries of versions 0-2, unsupported
//! version, wrong length, unknown type, Error PDU). For every stream: every
//! fragmentation (every set of cut positions) combined with notify events at
//! every position of the event order, each notify either in a batch of its
//! own or batched with a chunk (visible in the same poll), two notifies in one
//! batch (lag), then close (after quiescence, or in the last batch).
//! Deviations = cuts + notifies; bounds 0, 1, 2, (3) are completed one after
//! the other.
//!
//! Oracles: (1) the reference run (all octets in one piece, no notify) is
//! compared with a small independent model of the protocol: every well-formed
//! supported query gets exactly its response, octet for octet, every malformed
//! or unsupported one an Error PDU, also after earlier errors as long as the
//! stream is still in frame; (2) every schedule is compared with the
//! reference run: equal octets after deleting Serial Notify PDUs, Serial
//! Notify only between responses and on PDU boundaries, at most one per notify
//! event and at least one when notify events reached a connection that stayed
//! open; at every quiescence the responses determined by the octets
//! delivered so far are on the wire (a malformed header is answered from its 8
//! octets); the connection ends after the close; no panic, livelock or spin.
//!
//! Space `malformed.headers` (round 8): the header field domains of
//! malformed queries. One subject header with every combination of version
//! octet x PDU type x length field x session/zero field, reached by every
//! route into the connection (first PDU; after queries of each version;
//! after each kind of recoverable error; as third PDU; after a notify before
//! the first query), followed by nothing / a good query / the announced body
//! and a good query. Oracle (3): an octet-level rendering of the protocol
//! model (`ByteModel`) that keeps every reading RFC 8210 leaves open and
//! demands the exact data response for every complete well-formed query and
//! exactly one well-formed Error Report (code, version, encapsulated PDU) -
//! never a data response - for everything else; then the schedule oracles (2)
//! at deviation <= 1 around the subject header.
//!
//! Round 11: (a) `malformed.headers` no longer leaves the non-zero reserved
//! field of a Reset Query open (RFC 8210 section 5: unspecified fields MUST be
//! ignored on receipt - the query is well-formed and must get its response);
//! (b) `data.sizes` has single router key PDUs of k-1, k, k+1 octets around
//! every power of two from 2^13 to 2^17 and responses whose size reaches k
//! with / after the large PDU, at every position of the response;
//! (c) space `participants.reports`: everything else the source reports
//! (timing values, readiness, session; one or two moves) changes at every
//! point of the schedule of ONE connection that answers up to three queries,
//! and the Serial Notify PDUs are compared with the source's state as well.

use std::cell::RefCell;
use std::collections::{BTreeMap, HashSet};
use std::io;
use std::sync::Mutex;
use std::sync::atomic::{AtomicU64, Ordering};
use std::sync::Arc;
use bytes::Bytes;
use futures_util::stream;
use rayon::prelude::*;
use rpki::crypto::keys::KeyIdentifier;
use rpki::resources::addr::{MaxLenPrefix, Prefix};
use rpki::resources::asn::Asn;
use rpki::rtr::payload::{Action, Payload, PayloadRef, Timing};
use rpki::rtr::pdu::{ProviderAsns, RouterKeyInfo};
use rpki::rtr::server::{NotifySender, PayloadDiff, PayloadSet, PayloadSource, Server};
use rpki::rtr::state::{Serial, State};
use rpki_verif::{guard, hex, Ctx};

#[path = "../shared/rtr_sched.rs"] mod rtr_sched;
use rtr_sched::{parse_script, play_with, quiesce, render_script, sock_pair, Ev, Mark, Sched};


//------------ the data the server serves ------------------------------------

const SESSION: u16 = 0x1234;
const SERIAL: u32 = 7;
const REFRESH: u32 = 11;
const RETRY: u32 = 22;
const EXPIRE: u32 = 33;

/// Plain description of a payload item; the library value and the expected
/// wire image are both derived from it, separately.
#[derive(Clone, Debug)]
enum Item {
    V4 { addr: [u8; 4], len: u8, max: u8, asn: u32 },
    V6 { addr: [u8; 16], len: u8, max: u8, asn: u32 },
    Key { ski: [u8; 20], asn: u32, info: Vec<u8> },
    Aspa { customer: u32, providers: Vec<u32> },
}

impl Item {
    fn min_version(&self) -> u8 {
        match self { Item::V4 { .. } | Item::V6 { .. } => 0, Item::Key { .. } => 1, Item::Aspa { .. } => 2 }
    }

    fn to_lib(&self) -> Payload {
        match self {
            Item::V4 { addr, len, max, asn } => Payload::origin(
                MaxLenPrefix::new(Prefix::new_v4((*addr).into(), *len).unwrap(), Some(*max)).unwrap(),
                Asn::from_u32(*asn)),
            Item::V6 { addr, len, max, asn } => Payload::origin(
                MaxLenPrefix::new(Prefix::new_v6((*addr).into(), *len).unwrap(), Some(*max)).unwrap(),
                Asn::from_u32(*asn)),
            Item::Key { ski, asn, info } => Payload::router_key(
                KeyIdentifier::from(*ski), Asn::from_u32(*asn),
                RouterKeyInfo::new(Bytes::from(info.clone())).unwrap()),
            Item::Aspa { customer, providers } => Payload::aspa(
                Asn::from_u32(*customer),
                ProviderAsns::try_from_iter(providers.iter().map(|p| Asn::from_u32(*p))).unwrap()),
        }
    }

    /// Wire image per RFC 6810 / RFC 8210 / 8210bis, written without the library.
    fn wire(&self, v: u8, announce: bool) -> Vec<u8> {
        let fl = announce as u8;
        match self {
            Item::V4 { addr, len, max, asn } => {
                let mut o = hdr(v, 4, 0, 20);
                o.extend_from_slice(&[fl, *len, *max, 0]);
                o.extend_from_slice(addr); o.extend_from_slice(&asn.to_be_bytes()); o
            }
            Item::V6 { addr, len, max, asn } => {
                let mut o = hdr(v, 6, 0, 32);
                o.extend_from_slice(&[fl, *len, *max, 0]);
                o.extend_from_slice(addr); o.extend_from_slice(&asn.to_be_bytes()); o
            }
            Item::Key { ski, asn, info } => {
                let mut o = hdr(v, 9, (fl as u16) << 8, 32 + info.len() as u32);
                o.extend_from_slice(ski); o.extend_from_slice(&asn.to_be_bytes()); o.extend_from_slice(info); o
            }
            Item::Aspa { customer, providers } => {
                let mut o = hdr(v, 11, (fl as u16) << 8, 12 + 4 * providers.len() as u32);
                o.extend_from_slice(&customer.to_be_bytes());
                for p in providers { o.extend_from_slice(&p.to_be_bytes()) }
                o
            }
        }
    }
}

fn hdr(v: u8, ty: u8, session: u16, len: u32) -> Vec<u8> {
    let mut o = vec![v, ty];
    o.extend_from_slice(&session.to_be_bytes());
    o.extend_from_slice(&len.to_be_bytes());
    o
}

/// The data a source serves in one state: serial, the full set and the
/// retained diffs (from-serial, changes).
#[derive(Clone)]
struct Data { name: String, serial: u32, full: Vec<Item>, diffs: Vec<(u32, Vec<(Item, bool)>)> }

impl Data {
    fn base() -> Data { Data { name: "base".into(), serial: SERIAL, full: full_items(), diffs: vec![(SERIAL - 1, diff_items())] } }

    /// The state the source moves to when it advances: serial + 1, one origin
    /// more and another IPv6 origin, the diff from the base state retained
    /// (the older one is dropped).
    fn next() -> Data {
        let added = Item::V4 { addr: [192, 0, 2, 0], len: 24, max: 28, asn: 65100 };
        let old6 = full_items().remove(1);
        let new6 = Item::V6 { addr: [0x20, 0x01, 0x0d, 0xb8, 0, 1, 0, 0, 0, 0, 0, 0, 0, 0, 0, 0], len: 48, max: 48, asn: 65001 };
        let mut full = full_items(); full[1] = new6.clone(); full.push(added.clone());
        Data { name: "next".into(), serial: SERIAL + 1, full, diffs: vec![(SERIAL, vec![(old6, false), (new6, true), (added, true)])] }
    }

    fn diff_from(&self, from: u32) -> Option<&Vec<(Item, bool)>> { self.diffs.iter().find(|(f, _)| *f == from).map(|(_, d)| d) }
}

fn full_items() -> Vec<Item> {
    vec![
        Item::V4 { addr: [10, 0, 0, 0], len: 8, max: 24, asn: 65000 },
        Item::V6 { addr: [0x20, 0x01, 0x0d, 0xb8, 0, 0, 0, 0, 0, 0, 0, 0, 0, 0, 0, 0], len: 32, max: 48, asn: 65001 },
        Item::Key { ski: [0xA5; 20], asn: 65002, info: vec![1, 2, 3, 4, 5] },
        Item::Aspa { customer: 65003, providers: vec![65004, 65005] },
    ]
}

/// The retained diff from serial SERIAL-1 to SERIAL.
fn diff_items() -> Vec<(Item, bool)> {
    vec![
        (Item::V4 { addr: [10, 0, 0, 0], len: 8, max: 24, asn: 65000 }, true),
        (Item::V6 { addr: [0x20, 0x01, 0x0d, 0xb8, 0xff, 0, 0, 0, 0, 0, 0, 0, 0, 0, 0, 0], len: 40, max: 40, asn: 65009 }, false),
        (Item::Key { ski: [0xA5; 20], asn: 65002, info: vec![1, 2, 3, 4, 5] }, true),
        (Item::Aspa { customer: 65003, providers: vec![65004, 65005] }, true),
    ]
}

struct SrcData {
    state: State,
    full: Vec<Payload>,
    diffs: Vec<(u32, Vec<(Payload, Action)>)>,
    timing: Timing,
    ready: bool,
}

struct SrcShared { states: Vec<SrcData>, cur: std::sync::atomic::AtomicUsize }

/// Everything a source reports in one of its states: the data (serial, full
/// set, retained diffs), the session, the timing values and whether it is
/// ready.
#[derive(Clone)]
struct Report { name: &'static str, data: Data, session: u16, timing: [u32; 3], ready: bool }

impl Report {
    fn base() -> Report { Report { name: "base", data: Data::base(), session: SESSION, timing: [REFRESH, RETRY, EXPIRE], ready: true } }
}

/// The harness' payload source: a sequence of states (a session, one serial,
/// a full set, the diffs retained in that state, timing values, readiness)
/// and the index of the current one. `advance` is the source's own event.
/// Iterators are snapshots of the state they were created in.
#[derive(Clone)]
struct Src(Arc<SrcShared>);

impl Src {
    fn new(data: &Data) -> Src { Src::with_states(std::slice::from_ref(data)) }

    fn with_states(states: &[Data]) -> Src {
        let reports: Vec<Report> = states.iter().map(|d| Report { data: d.clone(), ..Report::base() }).collect();
        Src::with_reports(&reports)
    }

    fn with_reports(reports: &[Report]) -> Src {
        let act = |a: bool| if a { Action::Announce } else { Action::Withdraw };
        Src(Arc::new(SrcShared {
            states: reports.iter().map(|r| SrcData {
                state: State::from_parts(r.session, Serial(r.data.serial)),
                full: r.data.full.iter().map(|i| i.to_lib()).collect(),
                diffs: r.data.diffs.iter().map(|(f, ch)| (*f, ch.iter().map(|(i, a)| (i.to_lib(), act(*a))).collect())).collect(),
                timing: Timing { refresh: r.timing[0], retry: r.timing[1], expire: r.timing[2] },
                ready: r.ready,
            }).collect(),
            cur: std::sync::atomic::AtomicUsize::new(0),
        }))
    }

    fn cur(&self) -> usize { self.0.cur.load(Ordering::SeqCst) }

    /// Back to the first state (between runs).
    fn rewind(&self) { self.0.cur.store(0, Ordering::SeqCst) }

    /// The source moves on to its next state (if it has one).
    fn advance(&self) { if self.cur() + 1 < self.0.states.len() { self.0.cur.fetch_add(1, Ordering::SeqCst); } }
}

struct SetIter { data: Arc<SrcShared>, state: usize, pos: usize }
struct DiffIter { data: Arc<SrcShared>, state: usize, diff: Option<usize>, pos: usize }

impl PayloadSet for SetIter {
    fn next(&mut self) -> Option<PayloadRef<'_>> {
        let i = self.pos; self.pos += 1;
        self.data.states[self.state].full.get(i).map(|p| p.as_ref())
    }
}

impl PayloadDiff for DiffIter {
    fn next(&mut self) -> Option<(PayloadRef<'_>, Action)> {
        let d = self.diff?;
        let i = self.pos; self.pos += 1;
        self.data.states[self.state].diffs[d].1.get(i).map(|(p, a)| (p.as_ref(), *a))
    }
}

impl PayloadSource for Src {
    type Set = SetIter;
    type Diff = DiffIter;
    fn ready(&self) -> bool { self.0.states[self.cur()].ready }
    fn notify(&self) -> State { self.0.states[self.cur()].state }
    fn full(&self) -> (State, SetIter) { let c = self.cur(); (self.0.states[c].state, SetIter { data: self.0.clone(), state: c, pos: 0 }) }
    fn diff(&self, state: State) -> Option<(State, DiffIter)> {
        let c = self.cur();
        let st = &self.0.states[c];
        if state.session() != st.state.session() { return None }
        if state.serial().0 == st.state.serial().0 { return Some((st.state, DiffIter { data: self.0.clone(), state: c, diff: None, pos: 0 })) }
        let d = st.diffs.iter().position(|(f, _)| *f == state.serial().0)?;
        Some((st.state, DiffIter { data: self.0.clone(), state: c, diff: Some(d), pos: 0 }))
    }
    fn timing(&self) -> Timing { self.0.states[self.cur()].timing }
}


//------------ the client alphabet and the protocol model --------------------

#[derive(Clone, Copy, Debug, PartialEq, Eq)]
enum Q {
    Reset(u8),
    /// Serial query; `from` is the serial the client claims to have.
    Serial(u8, u32),
    /// A query with a version the server does not support.
    BadVersion,
    /// A serial query whose header announces 13 octets.
    BadLength,
    /// A PDU type that is not a query.
    NotAQuery,
    /// An Error PDU sent by the client.
    ErrorPdu,
    /// The bare header of a serial query (type 1, version 1) announcing a
    /// length other than 12: answered from the header alone.
    BadSerialHeader,
}

struct Sym { name: &'static str, bytes: Vec<u8>, q: Q }

fn serial_query(v: u8, serial: u32) -> Vec<u8> {
    let mut o = hdr(v, 1, SESSION, 12); o.extend_from_slice(&serial.to_be_bytes()); o
}

fn alphabet() -> Vec<Sym> {
    let mut bad_len = hdr(1, 1, SESSION, 13); bad_len.extend_from_slice(&[0, 0, 0, 6, 0xEE]);
    let mut err = hdr(1, 10, 2, 17); err.extend_from_slice(&[0, 0, 0, 0, 0, 0, 0, 1, b'x']);
    vec![
        Sym { name: "reset1", bytes: hdr(1, 2, 0, 8), q: Q::Reset(1) },
        Sym { name: "serial1.diff", bytes: serial_query(1, SERIAL - 1), q: Q::Serial(1, SERIAL - 1) },
        Sym { name: "serial1.nodiff", bytes: serial_query(1, 2), q: Q::Serial(1, 2) },
        Sym { name: "reset0", bytes: hdr(0, 2, 0, 8), q: Q::Reset(0) },
        Sym { name: "reset2", bytes: hdr(2, 2, 0, 8), q: Q::Reset(2) },
        Sym { name: "reset3", bytes: hdr(3, 2, 0, 8), q: Q::BadVersion },
        Sym { name: "serial1.len13", bytes: bad_len, q: Q::BadLength },
        Sym { name: "type9", bytes: hdr(1, 9, 0, 8), q: Q::NotAQuery },
        Sym { name: "serial2.current", bytes: serial_query(2, SERIAL), q: Q::Serial(2, SERIAL) },
        Sym { name: "error", bytes: err, q: Q::ErrorPdu },
        // header-only malformed serial queries; the first one belongs to the
        // core alphabet (streams of <= 3 PDUs), the others to streams of <= 2
        Sym { name: "serial1.hdr.len8", bytes: hdr(1, 1, SESSION, 8), q: Q::BadSerialHeader },
        Sym { name: "serial1.hdr.len0", bytes: hdr(1, 1, SESSION, 0), q: Q::BadSerialHeader },
        Sym { name: "serial1.hdr.len11", bytes: hdr(1, 1, SESSION, 11), q: Q::BadSerialHeader },
        Sym { name: "serial1.hdr.len13", bytes: hdr(1, 1, SESSION, 13), q: Q::BadSerialHeader },
        Sym { name: "serial1.hdr.len16", bytes: hdr(1, 1, SESSION, 16), q: Q::BadSerialHeader },
        Sym { name: "serial1.hdr.len2g", bytes: hdr(1, 1, SESSION, 0x8000_0000), q: Q::BadSerialHeader },
    ]
}

/// Symbols that take part in streams of three PDUs.
const CORE: usize = 11;

/// One expected response unit.
#[derive(Debug)]
enum Expect { Exact(Vec<u8>), ErrorPdu }

fn end_of_data(v: u8, serial: u32) -> Vec<u8> {
    if v == 0 { let mut o = hdr(0, 7, SESSION, 12); o.extend_from_slice(&serial.to_be_bytes()); o }
    else {
        let mut o = hdr(v, 7, SESSION, 24);
        for x in [serial, REFRESH, RETRY, EXPIRE] { o.extend_from_slice(&x.to_be_bytes()) }
        o
    }
}

/// What the model knows about the version the connection has settled on.
#[derive(Clone, Copy, Debug, PartialEq, Eq)]
enum Negotiated {
    /// No query with a supported version has been seen yet.
    No,
    /// Settled by a query.
    Yes(u8),
    /// A PDU that is not a query carried this (supported) version as the
    /// first PDU of the connection. RFC 8210 section 7 lets the first *query*
    /// tell the cache the version; whether another PDU type does so too is
    /// not fixed by the property, so both readings are kept: a later query
    /// with this version is predicted, one with another version is not.
    Maybe(u8),
}

/// The protocol model: what the property promises for a sequence of client
/// PDUs. Returns the expected response units and whether the prediction
/// covers the whole sequence.
///
/// The model keeps predicting after every error after which the stream is
/// still in frame and the connection state is defined:
///
/// * a header-only PDU with an unsupported version draws an Error PDU and
///   negotiates nothing (RFC 8210 section 7: the cache answers with error 4
///   and the router retries with a lower version), whatever came before;
/// * a header-only query whose version differs from the negotiated one draws
///   an Error PDU and leaves the negotiated version as it was;
/// * a header-only PDU that is not a query draws an Error PDU (see
///   `Negotiated::Maybe` for the version).
///
/// It stops where the octets after the offending PDU are no longer in frame
/// for a reader that answers a bad header at once (a 12- or 13-octet serial
/// query rejected on its header: the body is left in the stream), at a
/// client Error PDU (RFC 8210 section 10 makes error reports fatal for the
/// session while the property text promises nothing either way), and at a
/// query whose version contradicts a `Maybe`.
fn model(seq: &[Q], lens: &[usize], data: &Data) -> (Vec<Expect>, Vec<usize>, bool, usize) {
    let mut out = Vec::new();
    // due[i]: number of client octets after which response i is determined
    // (all of a well-formed query; the 8 header octets of anything that is
    // rejected on its header)
    let mut due: Vec<usize> = Vec::new();
    let mut negotiated = Negotiated::No;
    let mut start = 0usize;
    // number of leading client PDUs after which the server is known to be between queries, in frame
    let mut in_frame = 0usize;
    for (k, (q, len)) in seq.iter().zip(lens.iter()).enumerate() {
        in_frame = k;
        let (hdr_end, end) = (start + 8, start + len);
        start = end;
        let v = match *q {
            Q::Reset(v) | Q::Serial(v, _) => v,
            // header-only, in frame; nothing is negotiated, nothing is forgotten
            Q::BadVersion => { out.push(Expect::ErrorPdu); due.push(hdr_end); continue }
            // header-only, in frame: answered from the header alone; the
            // version it carries is supported, so as with a non-query the
            // model keeps both readings of what it negotiates
            Q::BadSerialHeader => {
                out.push(Expect::ErrorPdu); due.push(hdr_end);
                if negotiated == Negotiated::No { negotiated = Negotiated::Maybe(1) }
                continue
            }
            // header-only (version 1 in the alphabet), in frame
            Q::NotAQuery => {
                out.push(Expect::ErrorPdu); due.push(hdr_end);
                if negotiated == Negotiated::No { negotiated = Negotiated::Maybe(1) }
                continue
            }
            // the body stays in the stream: out of frame from here on
            Q::BadLength => { out.push(Expect::ErrorPdu); due.push(hdr_end); return (out, due, false, in_frame) }
            Q::ErrorPdu => return (out, due, false, in_frame),
        };
        match negotiated {
            Negotiated::Yes(n) if n != v => {
                out.push(Expect::ErrorPdu); due.push(hdr_end);
                // a reset query is its header: still in frame, version unchanged;
                // a serial query leaves its body behind
                if matches!(q, Q::Reset(_)) { continue } else { return (out, due, false, in_frame) }
            }
            Negotiated::Maybe(n) if n != v => return (out, due, false, in_frame),
            _ => negotiated = Negotiated::Yes(v),
        }
        let mut unit = Vec::new();
        match *q {
            Q::Reset(_) => {
                unit.extend(hdr(v, 3, SESSION, 8));
                for i in &data.full { if i.min_version() <= v { unit.extend(i.wire(v, true)) } }
                unit.extend(end_of_data(v, data.serial));
            }
            Q::Serial(_, from) if from == data.serial => {
                unit.extend(hdr(v, 3, SESSION, 8));
                unit.extend(end_of_data(v, data.serial));
            }
            Q::Serial(_, from) => match data.diff_from(from) {
                Some(diff) => {
                    unit.extend(hdr(v, 3, SESSION, 8));
                    for (i, a) in diff { if i.min_version() <= v { unit.extend(i.wire(v, *a)) } }
                    unit.extend(end_of_data(v, data.serial));
                }
                None => unit.extend(hdr(v, 8, 0, 8)),
            },
            _ => unreachable!(),
        }
        out.push(Expect::Exact(unit)); due.push(end);
    }
    (out, due, true, seq.len())
}


//------------ the protocol model on octets -----------------------------------
//
// A second, octet-level rendering of the same promises: it reads the client's
// octets header by header and says, for every PDU it finds, what the one
// response unit due for it may be. It is derived from RFC 8210 (sections 5.1
// header, 5.3/5.4 queries, 5.11 Error Report, 7 version negotiation, 12 error
// codes) and the property text. Where these leave the behaviour open, every
// reading is kept and a transcript is accepted if SOME consistent choice of
// readings explains it:
//
// * after an Error Report the server may go on right after the 8 header
//   octets it answered from, skip the number of octets the header announced,
//   or close the connection (RFC 8210 calls these errors fatal; the property
//   promises an Error PDU and nothing about what follows); a PDU whose
//   announced octets never arrive may also stay unanswered (a server that
//   takes in the whole PDU before judging it);
// * a PDU that carries a supported version but is rejected for another
//   reason may or may not count as the version negotiation;
// * a client Error Report ends all prediction (RFC 8210 5.11: never answered
//   with an Error Report; the property says nothing).
//
// What is never open: a complete well-formed query of an acceptable version
// gets exactly its data response - a Reset Query is well-formed whatever its
// reserved 16-bit field holds (RFC 8210 section 5: "Fields with unspecified
// content MUST be zero on transmission and MUST be ignored on receipt"; round
// 11: this reading used to be left open, which hid a server that compares the
// received header with the one its own constructor builds); every other complete header gets exactly
// one Error Report PDU that is well formed (length fields add up, UTF-8 text),
// carries one of the defined codes 0..=8 (which one is not judged: the
// property says "an Error PDU"), a supported version (the
// negotiated one once there is one) and encapsulates nothing but a prefix of
// the offending PDU; and never a data response.

/// The response the harness' source determines for a well-formed query:
/// `None` is a Reset Query, `Some((session, serial))` a Serial Query.
fn data_unit(v: u8, q: Option<(u16, u32)>, data: &Data) -> Vec<u8> {
    let mut unit = Vec::new();
    match q {
        None => {
            unit.extend(hdr(v, 3, SESSION, 8));
            for i in &data.full { if i.min_version() <= v { unit.extend(i.wire(v, true)) } }
            unit.extend(end_of_data(v, data.serial));
        }
        // the source has nothing for another session: Cache Reset
        Some((session, _)) if session != SESSION => unit.extend(hdr(v, 8, 0, 8)),
        Some((_, from)) if from == data.serial => {
            unit.extend(hdr(v, 3, SESSION, 8));
            unit.extend(end_of_data(v, data.serial));
        }
        Some((_, from)) => match data.diff_from(from) {
            Some(diff) => {
                unit.extend(hdr(v, 3, SESSION, 8));
                for (i, a) in diff { if i.min_version() <= v { unit.extend(i.wire(v, *a)) } }
                unit.extend(end_of_data(v, data.serial));
            }
            None => unit.extend(hdr(v, 8, 0, 8)),
        },
    }
    unit
}

/// The response the model determines for a well-formed query (`None`: Reset
/// Query, `Some((session, serial))`: Serial Query) of version `v` when the
/// source reports the session, serial and data of `r` and the timing values
/// `timing`. Written from RFC 8210 sections 5.2 - 5.10, without the library.
fn report_unit(v: u8, q: Option<(u16, u32)>, r: &Report, timing: [u32; 3]) -> Vec<u8> {
    let changes: Option<Vec<(&Item, bool)>> = match q {
        None => Some(r.data.full.iter().map(|i| (i, true)).collect()),
        // another session, or a serial the source keeps no diff for: Cache Reset
        Some((session, _)) if session != r.session => None,
        Some((_, from)) if from == r.data.serial => Some(vec![]),
        Some((_, from)) => r.data.diff_from(from).map(|d| d.iter().map(|(i, a)| (i, *a)).collect()),
    };
    let Some(changes) = changes else { return hdr(v, 8, 0, 8) };
    let mut unit = hdr(v, 3, r.session, 8);
    for (i, a) in changes { if i.min_version() <= v { unit.extend(i.wire(v, a)) } }
    if v == 0 { unit.extend(hdr(0, 7, r.session, 12)); unit.extend(r.data.serial.to_be_bytes()) }
    else { unit.extend(hdr(v, 7, r.session, 24)); for x in [r.data.serial, timing[0], timing[1], timing[2]] { unit.extend(x.to_be_bytes()) } }
    unit
}

/// The highest protocol version a server of RFC 8210bis may speak.
const MODEL_MAX_VERSION: u8 = 2;

#[derive(Clone, Copy, Debug, PartialEq, Eq, Hash)]
enum Neg { No, Yes(u8) }

/// What the next response unit may be.
enum Want {
    Data(Vec<u8>),
    /// An Error Report with one of these codes, this version (`None`: any
    /// supported one), for the PDU starting at this offset of the client's octets.
    Error { codes: &'static [u16], version: Option<u8>, at: usize },
}

/// Is `unit` an acceptable Error Report for the PDU at `stream[at..]`?
fn check_error_unit(unit: &[u8], codes: &[u16], version: Option<u8>, offending: &[u8]) -> Result<(), String> {
    if unit.len() < 16 { return Err(format!("an Error PDU of {} octets (16 is the minimum)", unit.len())) }
    if unit[1] != T_ERROR { return Err(format!("PDU type {} where an Error PDU was due", unit[1])) }
    let code = u16::from_be_bytes([unit[2], unit[3]]);
    // The property demands "an Error PDU"; which of the defined codes (RFC 8210: 0..=8) names the
    // problem best is not part of it. The fitting codes are recorded as an outcome class only.
    let _ = codes;
    if code > 8 { return Err(format!("error code {code} is not one RFC 8210 defines (0..=8)")) }
    match version {
        Some(n) if unit[0] != n => return Err(format!("Error PDU carries version {} on a connection that settled on version {n}", unit[0])),
        None if unit[0] > MODEL_MAX_VERSION => return Err(format!("Error PDU carries the unsupported version {}", unit[0])),
        _ => {}
    }
    let be = |p: usize| u32::from_be_bytes([unit[p], unit[p + 1], unit[p + 2], unit[p + 3]]) as usize;
    let enc = be(8);
    if 12 + enc + 4 > unit.len() { return Err(format!("encapsulated PDU length {enc} does not fit the Error PDU of {} octets", unit.len())) }
    let text = be(12 + enc);
    if 16 + enc + text != unit.len() { return Err(format!("Error PDU of {} octets, but its parts add up to 16 + {enc} + {text}", unit.len())) }
    let encapsulated = &unit[12..12 + enc];
    if !offending.starts_with(encapsulated) {
        return Err(format!("the Error PDU encapsulates {} which is not (the beginning of) the offending PDU {}", hex(encapsulated), hex(&offending[..offending.len().min(enc.max(8))])))
    }
    if std::str::from_utf8(&unit[16 + enc..]).is_err() { return Err("error text is not UTF-8".into()) }
    Ok(())
}

/// Matches the response units of a transcript against the octet-level model.
struct ByteModel<'a> {
    stream: &'a [u8],
    data: &'a Data,
    stripped: &'a [u8],
    units: &'a [(u8, usize, usize)],
    /// (offset, negotiated, units matched) states that are known not to lead anywhere
    dead: HashSet<(usize, Neg, usize)>,
    /// the complaint at the deepest point any reading got to
    best: Option<(usize, String)>,
}

impl<'a> ByteModel<'a> {
    fn note(&mut self, ui: usize, msg: impl FnOnce() -> String) {
        if self.best.as_ref().map(|b| ui > b.0).unwrap_or(true) { self.best = Some((ui, msg())) }
    }

    fn ends(&mut self, ui: usize, why: &str) -> bool {
        if ui == self.units.len() { return true }
        let n = self.units.len();
        self.note(ui, || format!("{n} response units, but after the first {ui} {why}"));
        false
    }

    /// Can the units from `ui` on be explained by the client's octets from
    /// `pos` on, on a connection whose version negotiation stands at `neg`?
    fn go(&mut self, pos: usize, neg: Neg, ui: usize) -> bool {
        if self.dead.contains(&(pos, neg, ui)) { return false }
        let (stream, stripped, data) = (self.stream, self.stripped, self.data);
        let rest = &stream[pos..];
        if rest.len() < 8 { return self.ends(ui, "the client's octets hold no further complete header") }
        let (v, t) = (rest[0], rest[1]);
        let s = u16::from_be_bytes([rest[2], rest[3]]);
        let l = u32::from_be_bytes([rest[4], rest[5], rest[6], rest[7]]) as u64;
        // a client Error Report: nothing is promised from here on
        if t == T_ERROR { return true }
        let version_ok = match neg { Neg::Yes(n) => v == n, Neg::No => v <= MODEL_MAX_VERSION };
        // where the connection may stand after an Error Report for this PDU
        let total = stream.len() as u64;
        let after_error = |negs: &[Neg]| -> Vec<Option<(usize, Neg)>> {
            let mut nx = vec![None];
            for n in negs {
                nx.push(Some((pos + 8, *n)));
                // (announced octets that never arrive: the server waits for them until the client closes)
                if l > 8 && pos as u64 + l <= total { nx.push(Some((pos + l as usize, *n))) }
            }
            nx
        };
        let mut alts: Vec<(Want, Vec<Option<(usize, Neg)>>)> = Vec::new();
        if !version_ok {
            let codes: &'static [u16] = match neg { Neg::Yes(_) if v > MODEL_MAX_VERSION => &[8, 4], Neg::Yes(_) => &[8], Neg::No => &[4] };
            let version = match neg { Neg::Yes(n) => Some(n), Neg::No => None };
            alts.push((Want::Error { codes, version, at: pos }, after_error(&[neg])));
        } else {
            let version = match neg { Neg::Yes(n) => Some(n), Neg::No => None };
            let rejected: Vec<Neg> = if neg == Neg::No { vec![Neg::Yes(v), Neg::No] } else { vec![neg] };
            match (t, l) {
                // whatever the reserved field holds: RFC 8210 section 5, "Fields with unspecified content MUST be
                // zero on transmission and MUST be ignored on receipt" - the query is well-formed for the receiver
                (2, 8) => alts.push((Want::Data(data_unit(v, None, data)), vec![Some((pos + 8, Neg::Yes(v)))])),
                (1, 12) => {
                    if rest.len() < 12 { return self.ends(ui, "the last serial query of the client is incomplete") }
                    let serial = u32::from_be_bytes([rest[8], rest[9], rest[10], rest[11]]);
                    alts.push((Want::Data(data_unit(v, Some((s, serial)), data)), vec![Some((pos + 12, Neg::Yes(v)))]));
                }
                (1, _) | (2, _) => alts.push((Want::Error { codes: &[0, 3], version, at: pos }, after_error(&rejected))),
                _ => alts.push((Want::Error { codes: &[0, 3, 5], version, at: pos }, after_error(&rejected))),
            }
        }
        let describe = |rest: &[u8]| format!("the PDU at offset {pos} of the client's octets (header {}: version {v}, type {t}, session/zero {s:#x}, length {l}; negotiated so far: {})",
            hex(&rest[..8]), match neg { Neg::No => "nothing".to_string(), Neg::Yes(n) => format!("version {n}") });
        // a server that takes in the whole announced PDU before it judges it is still
        // waiting when the client closes: no answer, and nothing after it
        if ui == self.units.len() && l > 8 && pos as u64 + l > total && alts.iter().all(|(w, _)| matches!(w, Want::Error { .. })) { return true }
        let Some(&(ty, a, b)) = self.units.get(ui) else {
            let n = self.units.len();
            self.note(ui, || format!("{} got no response ({n} response units in all)", describe(rest)));
            self.dead.insert((pos, neg, ui));
            return false
        };
        for (want, nexts) in alts {
            let got = &stripped[a..b];
            let fit = match &want {
                Want::Data(w) => if got == w.as_slice() { Ok(()) } else if ty == T_ERROR { Err("an Error PDU where the data response of a well-formed query was due".to_string()) } else {
                    let d = got.iter().zip(w.iter()).position(|(x, y)| x != y).unwrap_or(got.len().min(w.len()));
                    Err(format!("a response that differs from the model's at octet {d}: PDU order (type:length) [{}], expected [{}]", pdu_order(got), pdu_order(w)))
                },
                Want::Error { codes, version, at } => if ty != T_ERROR { Err(format!("a data response (type {ty}: [{}]) where exactly one Error PDU was due", pdu_order(got))) }
                    else { check_error_unit(got, codes, *version, &stream[*at..]) },
            };
            match fit {
                Err(why) => self.note(ui, || format!("response unit {} is not acceptable for {}: {why}", ui + 1, describe(rest))),
                Ok(()) => for nx in nexts {
                    let ok = match nx {
                        None => self.ends(ui + 1, "the connection would have been closed by the server (fatal error)"),
                        Some((p, n)) => self.go(p, n, ui + 1),
                    };
                    if ok { return true }
                },
            }
        }
        self.dead.insert((pos, neg, ui));
        false
    }
}

/// Compares the transcript of a run without notify events with the
/// octet-level model.
fn check_against_byte_model(obs: &Obs, stream: &[u8], data: &Data) -> Result<(), String> {
    if obs.conn_panicked { return Err("connection task panicked".into()) }
    if obs.livelock || obs.spin || obs.flood { return Err("livelock/spin/flood guard tripped".into()) }
    if !obs.conn_ended { return Err("connection still open after the client closed (hang)".into()) }
    let p = parse(&obs.out).map_err(|e| format!("transcript is not a PDU sequence: {e}; got {}", rpki_verif::trunc(&hex(&obs.out), 200)))?;
    if !p.complaints.is_empty() { return Err(p.complaints.join("; ")) }
    if p.notifies != 0 { return Err("Serial Notify without a notify event".into()) }
    let mut m = ByteModel { stream, data, stripped: &p.stripped, units: &p.units, dead: HashSet::new(), best: None };
    if m.go(0, Neg::No, 0) { return Ok(()) }
    Err(format!("no reading of the client's octets explains the responses: {}; unit types {:?}", m.best.map(|b| b.1).unwrap_or_default(),
        p.units.iter().map(|u| match u.0 { T_RESPONSE => "data".to_string(), T_RESET => "cache-reset".to_string(), _ => format!("error{}", u16::from_be_bytes([p.stripped[u.1 + 2], p.stripped[u.1 + 3]])) }).collect::<Vec<_>>()))
}


//------------ reading transcripts -------------------------------------------

#[derive(Clone, Copy, Debug)]
struct Pdu { ty: u8, start: usize, end: usize }

/// Length-prefixed splitter: the only thing it knows is the 8-octet header.
fn split(b: &[u8]) -> Result<Vec<Pdu>, String> {
    let mut out = Vec::new();
    let mut p = 0usize;
    while p < b.len() {
        if b.len() - p < 8 { return Err(format!("{} stray octets at offset {p}", b.len() - p)) }
        let len = u32::from_be_bytes([b[p + 4], b[p + 5], b[p + 6], b[p + 7]]) as usize;
        if len < 8 || p + len > b.len() { return Err(format!("PDU at offset {p} announces {len} octets, {} available", b.len() - p)) }
        out.push(Pdu { ty: b[p + 1], start: p, end: p + len });
        p += len;
    }
    Ok(out)
}

const T_NOTIFY: u8 = rpki::rtr::pdu::SerialNotify::PDU;
const T_RESPONSE: u8 = rpki::rtr::pdu::CacheResponse::PDU;
const T_EOD: u8 = rpki::rtr::pdu::EndOfData::PDU;
const T_RESET: u8 = rpki::rtr::pdu::CacheReset::PDU;
const T_ERROR: u8 = rpki::rtr::pdu::Error::PDU;

/// A transcript taken apart.
struct Parsed {
    /// Octets without the Serial Notify PDUs.
    stripped: Vec<u8>,
    /// Response units (Cache Response .. End of Data, Cache Reset, Error) as ranges of `stripped`.
    units: Vec<(u8, usize, usize)>,
    /// For every unit, the offset in the unstripped transcript at which it is complete.
    unit_raw_end: Vec<usize>,
    notifies: usize,
    /// Offsets of Serial Notify PDUs found between Cache Response and End of Data.
    notify_inside: Vec<usize>,
    /// Serial Notify PDUs that are not 12 octets long.
    notify_bad: Vec<String>,
    /// Complaints about the order of the other PDUs.
    complaints: Vec<String>,
}

fn parse(out: &[u8]) -> Result<Parsed, String> {
    let pdus = split(out)?;
    let mut p = Parsed { stripped: Vec::with_capacity(out.len()), units: vec![], unit_raw_end: vec![], notifies: 0, notify_inside: vec![], notify_bad: vec![], complaints: vec![] };
    let mut open: Option<usize> = None;
    for pdu in pdus {
        if pdu.ty == T_NOTIFY {
            p.notifies += 1;
            if pdu.end - pdu.start != 12 { p.notify_bad.push(format!("Serial Notify of {} octets at {}", pdu.end - pdu.start, pdu.start)) }
            if open.is_some() { p.notify_inside.push(pdu.start) }
            continue
        }
        let s = p.stripped.len();
        p.stripped.extend_from_slice(&out[pdu.start..pdu.end]);
        let e = p.stripped.len();
        match (pdu.ty, open) {
            (T_RESPONSE, None) => open = Some(s),
            (T_RESPONSE, Some(_)) => p.complaints.push(format!("Cache Response inside a response at {}", pdu.start)),
            (T_EOD, Some(b)) => { p.units.push((T_RESPONSE, b, e)); p.unit_raw_end.push(pdu.end); open = None }
            (T_EOD, None) => p.complaints.push(format!("End of Data without Cache Response at {}", pdu.start)),
            (T_RESET, None) | (T_ERROR, None) => { p.units.push((pdu.ty, s, e)); p.unit_raw_end.push(pdu.end) }
            (T_RESET, Some(_)) | (T_ERROR, Some(_)) => p.complaints.push(format!("PDU type {} inside a response at {}", pdu.ty, pdu.start)),
            (_, Some(_)) => {}
            (t, None) => p.complaints.push(format!("payload PDU type {t} outside a response at {}", pdu.start)),
        }
    }
    if open.is_some() { p.complaints.push("response not finished by End of Data".into()) }
    Ok(p)
}


/// PDU order of a response, for messages: `type:length` per PDU.
fn pdu_order(b: &[u8]) -> String {
    match split(b) {
        Ok(p) => { let v: Vec<String> = p.iter().map(|x| format!("{}:{}", x.ty, x.end - x.start)).collect();
                   if v.len() <= 24 { v.join(" ") } else { format!("{} .. {} ({} PDUs)", v[..12].join(" "), v[v.len() - 6..].join(" "), v.len()) } }
        Err(e) => format!("<{e}>"),
    }
}

/// Compares a transcript (no notifies expected) with the model's prediction.
fn check_against_model(obs: &Obs, expect: &[Expect], complete: bool) -> Result<(), String> {
    if obs.conn_panicked { return Err("connection task panicked".into()) }
    if obs.livelock || obs.spin || obs.flood { return Err("livelock/spin/flood guard tripped".into()) }
    if !obs.conn_ended { return Err("connection still open after the client closed (hang)".into()) }
    let p = parse(&obs.out)?;
    if !p.complaints.is_empty() { return Err(p.complaints.join("; ")) }
    if p.notifies != 0 { return Err("Serial Notify without a notify event".into()) }
    if !p.notify_bad.is_empty() { return Err(p.notify_bad.join("; ")) }
    for (i, e) in expect.iter().enumerate() {
        let Some(&(ty, s, e2)) = p.units.get(i) else {
            return Err(format!("query {} got no response: {} units for {} predicted; transcript {}", i + 1, p.units.len(), expect.len(), rpki_verif::trunc(&hex(&obs.out), 200)))
        };
        match e {
            Expect::Exact(want) => if &p.stripped[s..e2] != want.as_slice() {
                let got = &p.stripped[s..e2];
                let d = got.iter().zip(want.iter()).position(|(a, b)| a != b).unwrap_or(got.len().min(want.len()));
                return Err(format!("response {} differs from the model at octet {d} ({} octets, {} expected); PDU order (type:length) is [{}], expected [{}]; octets from there: {} expected {}",
                    i + 1, got.len(), want.len(), pdu_order(got), pdu_order(want),
                    hex(&got[d..got.len().min(d + 24)]), hex(&want[d..want.len().min(d + 24)])))
            },
            Expect::ErrorPdu => if ty != T_ERROR {
                return Err(format!("response {} has type {ty}, an Error PDU was due", i + 1))
            },
        }
    }
    if complete && p.units.len() != expect.len() {
        return Err(format!("{} response units for {} queries", p.units.len(), expect.len()))
    }
    Ok(())
}


//------------ executing one schedule ----------------------------------------

#[derive(Clone, Debug, PartialEq, Eq)]
struct Obs {
    out: Vec<u8>,
    marks: Vec<Mark>,
    consumed: u64,
    updates: Vec<(u16, u32, bool)>,
    conn_ended: bool,
    server_ended: bool,
    conn_panicked: bool,
    livelock: bool,
    spin: bool,
    flood: bool,
    /// The connection was still open at the last quiescence before the client closed.
    alive_before_close: bool,
}

thread_local! {
    static SCHED: RefCell<Sched> = RefCell::new(Sched::new());
}

/// Runs the real server over one scripted socket under `script`.
/// Who else is attached to the same `NotifySender`.
#[derive(Clone, Copy, Debug, PartialEq, Eq, PartialOrd, Ord)]
enum Party {
    Alone,
    /// A receiver obtained with `subscribe()` that is never polled.
    IdleSubscriber,
    /// A second connection that never sends anything (it polls its receiver).
    IdleConn,
    /// A second connection that asked for a reset and whose response is stuck
    /// after k octets: it does not look at its receiver while it is stuck.
    StalledConn(usize),
}

impl Party {
    fn render(self) -> String {
        match self { Party::Alone => "alone".into(), Party::IdleSubscriber => "idle-subscriber".into(), Party::IdleConn => "idle-second-connection".into(),
            Party::StalledConn(k) => format!("second-connection-stalled-after-{k}-octets") }
    }
}

/// `Ev::User` codes of this explorer.
const X_SOURCE_ADVANCES: u8 = 0;
const X_WRITES_FAIL: u8 = 1;
const X_READS_FAIL: u8 = 2;

fn execute(src: &Src, stream_bytes: &[u8], script: &[Ev]) -> Obs { execute_with(src, stream_bytes, script, Party::Alone, None) }

/// Runs the real server over one scripted socket under `script`; `party`
/// adds a second holder of the notify sender; `own_sched`: run in this
/// runtime instead of the thread's.
fn execute_with(src: &Src, stream_bytes: &[u8], script: &[Ev], party: Party, own_sched: Option<&Sched>) -> Obs {
    let body = async {
        let (sock, ctl) = sock_pair();
        let mut notify = NotifySender::new();
        let second = match party { Party::IdleConn | Party::StalledConn(_) => Some(sock_pair()), _ => None };
        let _subscriber = if party == Party::IdleSubscriber { Some(notify.subscribe()) } else { None };
        let mut socks = Vec::new();
        let ctl2 = second.map(|(s2, c2)| { socks.push(Ok::<_, io::Error>(s2)); c2 });
        socks.push(Ok(sock));
        let server = Server::new(stream::iter(socks), notify.clone(), src.clone());
        let h = tokio::spawn(server.run());
        // the connection tasks start and park in their first receive
        let q0 = quiesce(&[&ctl]).await;
        if let (Party::StalledConn(k), Some(c2)) = (party, &ctl2) {
            c2.set_write_budget(Some(k));
            c2.deliver(&hdr(1, 2, 0, 8));
            quiesce(&[&ctl, c2]).await;
        }
        let mut hook = |code: u8| match code {
            X_SOURCE_ADVANCES => src.advance(),
            X_WRITES_FAIL => ctl.fail_writes(io::ErrorKind::BrokenPipe),
            X_READS_FAIL => ctl.fail_reads(io::ErrorKind::ConnectionReset),
            _ => {}
        };
        // up to the close, then the rest: in between, is the connection still there?
        let ci = script.iter().position(|e| matches!(e, Ev::Close)).unwrap_or(script.len());
        let mut tr = play_with(&ctl, stream_bytes, Some(&mut notify), &script[..ci], &mut hook).await;
        let alive = !ctl.dropped();
        let tr2 = play_with(&ctl, &[], Some(&mut notify), &script[ci..], &mut hook).await;
        tr.marks.extend(tr2.marks.into_iter().map(|m| Mark { at: m.at + ci, ..m }));
        tr.spin |= tr2.spin;
        // the other connection is released and closed as well
        let mut other_ended = true;
        if let Some(c2) = &ctl2 {
            c2.set_write_budget(None); c2.close();
            quiesce(&[&ctl, c2]).await;
            other_ended = c2.dropped();
        }
        Obs {
            alive_before_close: alive,
            out: ctl.output(), marks: tr.marks, consumed: ctl.consumed(), updates: ctl.updates(),
            conn_ended: ctl.dropped() && other_ended, server_ended: h.is_finished(), conn_panicked: ctl.dropped_in_panic(),
            livelock: ctl.livelock(), spin: tr.spin || q0.spin, flood: ctl.flood(),
        }
    };
    if let Some(sc) = own_sched { return sc.run(body) }
    let obs = SCHED.with(|s| s.borrow().run(body));
    if !obs.conn_ended || !obs.server_ended {
        // a task is left behind in the runtime: start the next run from a clean one
        SCHED.with(|s| *s.borrow_mut() = Sched::new());
    }
    obs
}


//------------ enumerating schedules -----------------------------------------

fn combos(n: usize, k: usize, lo: usize, cur: &mut Vec<usize>, out: &mut Vec<Vec<usize>>) {
    // all k-subsets of lo..=n, ascending
    if cur.len() == k { out.push(cur.clone()); return }
    for p in lo..=n { cur.push(p); combos(n, k, p + 1, cur, out); cur.pop(); }
}

fn multisets(slots: usize, k: usize, lo: usize, cur: &mut Vec<usize>, out: &mut Vec<Vec<usize>>) {
    if cur.len() == k { out.push(cur.clone()); return }
    for s in lo..slots { cur.push(s); multisets(slots, k, s, cur, out); cur.pop(); }
}

/// All schedules for one set of cut positions and exactly `notifies` notify
/// events. Slots: 2i = a batch of its own before chunk i (2k = after the last
/// chunk), 2i+1 = in the batch of chunk i. Several notifies in one gap slot
/// come as separate batches and (second variant) as one batch.
fn schedules(len: usize, cuts: &[usize], notifies: usize, close_batched: bool, out: &mut Vec<Vec<Ev>>) {
    let k = cuts.len() + 1;
    let mut sizes = Vec::with_capacity(k);
    let mut prev = 0;
    for &c in cuts { sizes.push(c - prev); prev = c }
    sizes.push(len - prev);
    let mut ms = Vec::new();
    multisets(2 * k + 1, notifies, 0, &mut vec![], &mut ms);
    for m in ms {
        let mut count = vec![0usize; 2 * k + 1];
        for s in &m { count[*s] += 1 }
        let multi_gap = (0..=k).any(|i| count[2 * i] >= 2);
        for merged in [false, true] {
            if merged && !multi_gap { continue }
            let mut sc = Vec::new();
            for i in 0..=k {
                let g = count[2 * i];
                if g > 0 {
                    if merged { for _ in 0..g { sc.push(Ev::Notify) } sc.push(Ev::Settle) }
                    else { for _ in 0..g { sc.push(Ev::Notify); sc.push(Ev::Settle) } }
                }
                if i < k {
                    sc.push(Ev::Deliver(sizes[i]));
                    for _ in 0..count[2 * i + 1] { sc.push(Ev::Notify) }
                    sc.push(Ev::Settle);
                }
            }
            if close_batched { sc.pop(); }
            sc.push(Ev::Close); sc.push(Ev::Settle);
            out.push(sc);
        }
    }
}

fn fnv(b: &[u8]) -> u64 {
    let mut h = 0xcbf29ce484222325u64;
    for x in b { h ^= *x as u64; h = h.wrapping_mul(0x100000001b3); }
    h
}

struct Stream {
    names: String, bytes: Vec<u8>, qs: Vec<Q>, npdus: usize, bounds: Vec<usize>,
    /// Per predicted response unit: the number of client octets that determine it.
    due: Vec<usize>,
    /// Numbers of client octets after which the server is known to be idle
    /// between queries: 0 and the ends of the leading PDUs that the model
    /// knows to leave the stream in frame.
    idle_at: Vec<usize>,
}

/// "The response is produced as soon as the octets that determine it have
/// arrived": at every run to quiescence before the close, the transcript must
/// hold at least the response units the model says are determined by the
/// octets delivered so far. Not judged while the script holds writes back.
fn prompt_check(script: &[Ev], marks: &[Mark], due: &[usize], unit_raw_end: &[usize]) -> Option<String> {
    if script.iter().any(|e| matches!(e, Ev::WriteBudget(_))) { return None }
    let mut d = 0usize;
    for (i, e) in script.iter().enumerate() {
        match e {
            Ev::Deliver(k) => d += k,
            Ev::Close => return None,
            Ev::Settle => {
                let Some(m) = marks.iter().find(|m| m.at == i) else { continue };
                let n_due = due.iter().filter(|x| **x <= d).count();
                let n_have = unit_raw_end.iter().filter(|x| **x <= m.out_len).count();
                if n_have < n_due {
                    return Some(format!("{d} client octets have arrived and determine {n_due} responses, but only {n_have} are on the wire at quiescence ({} octets written, {} consumed)", m.out_len, m.consumed))
                }
            }
            _ => {}
        }
    }
    None
}

fn main() {
    let ctx = Ctx::new("C08", "model_checking");
    ctx.assume("single-threaded scheduler: the connection is one task; tokio's broadcast channel, spawn and the current-thread runtime are trusted");
    ctx.assume("the harness' PayloadSource (fixed data set, session 0x1234, serial 7, one retained diff) is the data the responses must carry");
    ctx.assume("writes are accepted at once, except for the 1-octet-write and held-back-response variants at deviation <= 1; notifications fired before the connection has subscribed are out of scope");

    ctx.assume("malformed.headers: where RFC 8210 and the property text leave the reaction to a malformed PDU open (going on after the header / skipping the announced length / closing after the Error Report / waiting for announced octets that never come; whether a rejected PDU with a supported version settles the version) every reading is accepted; a client Error Report ends all prediction; a Reset Query with a non-zero reserved field is well-formed (RFC 8210 section 5: unspecified fields MUST be ignored on receipt) and must get its data response");

    let base = Data::base();
    let src = match guard(|| Src::new(&base)) {
        Ok(s) => s,
        Err(p) => {
            // the library panics while the payload items are constructed: a finding, not a machinery failure
            let sp = ctx.space("setup", "constructing the payload items of the harness' source with the library");
            sp.eval();
            ctx.fail("C08.ref.model", "constructing the payload source (Prefix / MaxLenPrefix / RouterKeyInfo / ProviderAsns constructors)", p);
            sp.done(false, "stopped: the source cannot be constructed");
            ctx.finish();
        }
    };
    let alpha = alphabet();
    let max_pdus = 3usize;
    let mut streams: Vec<Stream> = Vec::new();
    {
        let mut idx = vec![0usize; 0];
        fn rec(alpha: &[Sym], idx: &mut Vec<usize>, left: usize, out: &mut Vec<Stream>) {
            if !idx.is_empty() {
                out.push(Stream {
                    names: idx.iter().map(|i| alpha[*i].name).collect::<Vec<_>>().join(","),
                    bytes: idx.iter().flat_map(|i| alpha[*i].bytes.iter().copied()).collect(),
                    qs: idx.iter().map(|i| alpha[*i].q).collect(),
                    npdus: idx.len(),
                    bounds: { let mut acc = 0; let mut b = vec![0usize]; for i in idx.iter() { acc += alpha[*i].bytes.len(); b.push(acc) } b },
                    due: model(&idx.iter().map(|i| alpha[*i].q).collect::<Vec<_>>(), &idx.iter().map(|i| alpha[*i].bytes.len()).collect::<Vec<_>>(), &Data::base()).1,
                    idle_at: { let m = model(&idx.iter().map(|i| alpha[*i].q).collect::<Vec<_>>(), &idx.iter().map(|i| alpha[*i].bytes.len()).collect::<Vec<_>>(), &Data::base()); let mut acc = 0; let mut b = vec![0usize]; for i in idx.iter().take(m.3) { acc += alpha[*i].bytes.len(); b.push(acc) } b },
                });
            }
            if left == 0 { return }
            for i in 0..alpha.len() { idx.push(i); rec(alpha, idx, left - 1, out); idx.pop(); }
        }
        rec(&alpha, &mut idx, max_pdus, &mut streams);
        // the five further header-only symbols only in streams of <= 2 PDUs
        let extra: Vec<&str> = alpha[CORE..].iter().map(|a| a.name).collect();
        streams.retain(|s| s.npdus < 3 || !s.names.split(',').any(|n| extra.contains(&n)));
        streams.sort_by_key(|s| s.npdus); // shortest first (stable: alphabet order within)
    }

    // --replay: only the stream and the schedule named by the witness
    // (a witness of the data.sizes space names its own data set and stream; the other spaces then run on one stream only)
    let data_replay = ctx.replay.as_ref().map(|(_, w)| w.starts_with("data=")).unwrap_or(false);
    // witnesses of the participant and history spaces: those (small) spaces are run as a whole
    let space_replay = ctx.replay.as_ref().map(|(_, w)| w.starts_with("party=") || w.starts_with("source=") || w.starts_with("reports=") || w.starts_with("after ")).unwrap_or(false);
    // witnesses of the malformed.headers space carry their own octets and schedule
    let mal_replay = ctx.replay.as_ref().map(|(_, w)| w.starts_with("route=")).unwrap_or(false);
    if data_replay || mal_replay { streams.truncate(1) }
    let replay_case: Option<(String, Vec<Ev>)> = ctx.replay.as_ref().filter(|_| !data_replay && !space_replay && !mal_replay).map(|(_, w)| {
        let names = w.split_whitespace().find_map(|t| t.strip_prefix("stream=")).unwrap_or("").to_string();
        let sched = w.split_once("sched=").and_then(|(_, r)| parse_script(r));
        match sched {
            Some(sc) if streams.iter().any(|s| s.names == names) => (names, sc),
            _ => { eprintln!("machinery: cannot read the witness {w}"); std::process::exit(2) }
        }
    });
    if let Some((names, _)) = &replay_case { streams.retain(|s| s.names == *names) }

    // deviation bound per stream size: [1 PDU, 2 PDUs, 3 PDUs]
    let bound_by_pdus: [usize; 3] = ctx.tier.pick([3, 3, 2], [4, 4, 3]);
    let max_bound = if data_replay || space_replay || mal_replay { 0 } else { *bound_by_pdus.iter().max().unwrap() };

    //--- (1) reference runs against the protocol model ----------------------
    let sp = ctx.space("reference.model",
        "every sequence of <= 3 PDUs over the 11-symbol core alphabet plus every sequence of <= 2 PDUs involving the 5 further header-only malformed serial queries (length 0, 11, 13, 16, 2^31), delivered in one piece, no notify, then close; compared with the independent protocol model: exact response octets for every well-formed supported query and an Error PDU for every malformed or unsupported one, continuing after every error that leaves the stream in frame (unsupported version / version switch / non-query on a header-only PDU), stopping only at a serial query rejected on its header (body left in the stream), a client Error PDU, or a version the model cannot know; every predicted response must be on the wire at quiescence before the close (answers to malformed headers after the 8 header octets); non-trivial = streams with at least one query the model predicts a data response for");
    let mut refs: Vec<Obs> = Vec::with_capacity(streams.len());
    let mut oc: BTreeMap<&'static str, u64> = BTreeMap::new();
    for st in &streams {
        let script = [Ev::Deliver(st.bytes.len()), Ev::Settle, Ev::Close, Ev::Settle];
        let obs = execute(&src, &st.bytes, &script);
        sp.eval();
        let wit = || format!("stream={} hex={} sched={}", st.names, hex(&st.bytes), render_script(&script));
        let lens: Vec<usize> = st.bounds.windows(2).map(|w| w[1] - w[0]).collect();
        let (expect, _, complete, _) = model(&st.qs, &lens, &base);
        if expect.iter().any(|e| matches!(e, Expect::Exact(_))) { sp.nontrivial(1) }
        ctx.check("C08.ref.model", wit, || check_against_model(&obs, &expect, complete));
        // the same transcript against the octet-level rendering of the model (every acceptable reading kept)
        ctx.check("C08.ref.byte_model", wit, || check_against_byte_model(&obs, &st.bytes, &base));
        // the answers must be on the wire at quiescence, before the client closes
        ctx.check("C08.ref.prompt", wit, || {
            let p = parse(&obs.out)?;
            match prompt_check(&script, &obs.marks, &st.due, &p.unit_raw_end) { Some(d) => Err(d), None => Ok(()) }
        });
        if let Ok(p) = parse(&obs.out) {
            for (ty, _, _) in &p.units {
                *oc.entry(match *ty { T_RESPONSE => "unit:data", T_RESET => "unit:cache-reset", _ => "unit:error" }).or_insert(0) += 1;
            }
        }
        *oc.entry(if complete { "model-predicts-whole-stream" } else { "model-stops:out-of-frame-or-undefined" }).or_insert(0) += 1;
        if let Some(i) = expect.iter().position(|e| matches!(e, Expect::ErrorPdu)) {
            if i + 1 < expect.len() { *oc.entry("model-predicts-past-an-error").or_insert(0) += 1 }
            if expect[i + 1..].iter().any(|e| matches!(e, Expect::Exact(_))) { *oc.entry("model-predicts-data-after-an-error").or_insert(0) += 1 }
        }
        refs.push(obs);
    }
    sp.merge_outcomes(&oc);
    sp.set("alphabet", serde_json::json!(alpha.iter().map(|a| format!("{}={}", a.name, hex(&a.bytes))).collect::<Vec<_>>()));
    sp.sample_str(|| format!("stream={} -> {}", streams[0].names, hex(&refs[0].out)));
    sp.sample_str(|| { let i = streams.len() - 1; format!("stream={} -> {}", streams[i].names, hex(&refs[i].out)) });
    sp.states(streams.len() as u64); sp.transitions(2 * streams.len() as u64); sp.traces(streams.len() as u64);
    sp.done(true, &format!("all {} sequences of <= {} PDUs", streams.len(), max_pdus));

    //--- (1b) sizes and counts of the served data --------------------------------
    let sp = ctx.space("data.sizes",
        "payload sources with (i) one large item (ASPA with 1021/1022/1023/2044/16380 providers, router key with 4063/4064/4065 octets of key info; thorough: also 4095..4097 providers and 65535..65537 octets; a router key PDU of k-1, k, k+1 octets for k = 2^13 .. 2^17 (thorough: 2^18, 2^20); a router key PDU with whose end the response reaches k-1, k, k+1 octets, and one that makes the whole response k-1, k, k+1 octets, for k = 2^16 (thorough: 2^12, 2^17), sized for the version 1 and for the version 2 reset response; thorough: two large router key PDUs adjacent / apart) before / between / after the four small items, (ii) n IPv4 origins for every n in 0..=40 and around 128, 204 (4096/20), 256 (thorough: 512, 1024, 4096), n IPv6 origins around 128 (4096/32), (iii) n origins followed by a 1022-provider ASPA and one more origin; each queried with reset v0/v1/v2, serial v1/v2 (retained diff) and reset+serial on one connection, delivered in one piece / with a 1-octet first write / 7-octet writes / the response held back after 4096 octets; response PDU order and octets compared with the model; non-trivial = responses longer than 4096 octets (measured)");
    {
        let small = full_items();
        let big_aspa = |n: usize| Item::Aspa { customer: 70000, providers: (0..n as u32).map(|i| 0x0100_0000 + i).collect() };
        let big_key = |n: usize| Item::Key { ski: [0x5A; 20], asn: 70001, info: (0..n).map(|i| (i * 7) as u8).collect() };
        let origin = |i: usize| Item::V4 { addr: [10, (i >> 8) as u8, i as u8, 0], len: 24, max: 24, asn: 64512 + i as u32 };
        let origin6 = |i: usize| { let mut a = [0u8; 16]; a[0] = 0x20; a[1] = 0x01; a[4] = (i >> 8) as u8; a[5] = i as u8; Item::V6 { addr: a, len: 48, max: 64, asn: 64512 + i as u32 } };
        let with_diff = |name: String, full: Vec<Item>| -> Data {
            // the retained diff announces the same items in the same order, withdrawing every third
            let diff = full.iter().enumerate().map(|(i, it)| (it.clone(), i % 3 != 1)).collect();
            Data { name, serial: SERIAL, full, diffs: vec![(SERIAL - 1, diff)] }
        };
        let mut configs: Vec<Data> = Vec::new();
        let mut bigs: Vec<(String, Item)> = Vec::new();
        for n in [1021usize, 1022, 1023, 2044, 16380] { bigs.push((format!("aspa{n}"), big_aspa(n))) }
        for n in [4063usize, 4064, 4065] { bigs.push((format!("key{n}"), big_key(n))) }
        if ctx.tier.is_thorough() {
            for n in [4095usize, 4096, 4097, 8191, 8192, 8193] { bigs.push((format!("aspa{n}"), big_aspa(n))) }
            for n in [65535usize, 65536, 65537] { bigs.push((format!("key{n}"), big_key(n))) }
        }
        // (round 11) one PDU whose OWN size is k-1, k, k+1 octets for every power of two k a write path may
        // switch on (a buffer that is bypassed, flushed or split at k): only a router key PDU can be longer
        // than 65532 octets. The key info is 32 octets shorter than the PDU.
        let pdu_powers: &[u32] = if ctx.tier.is_thorough() { &[13, 14, 15, 16, 17, 18, 20] } else { &[13, 14, 15, 16, 17] };
        for &p in pdu_powers { for d in [-1i64, 0, 1] {
            let size = ((1i64 << p) + d) as usize;
            bigs.push((format!("keypdu{size}"), big_key(size - 32)));
        } }
        for (bn, b) in &bigs { for pos in [0usize, 2, 4] {
            let mut full = small.clone(); full.insert(pos, b.clone());
            configs.push(with_diff(format!("{bn}@{pos}"), full));
        } }
        // (round 11) the response reaches k-1, k, k+1 octets with the END of the large PDU (cumulative size
        // rather than the PDU's own: a collecting buffer that is exactly full / one short / one over) and
        // with its own end (the whole response is k-1, k, k+1 octets), the large PDU first, in the middle or
        // last among the small ones; the sizes are computed for the reset response of version 1 and of
        // version 2 (which serves the ASPA item as well), the other queries see the same data a few octets off
        let fill_powers: &[u32] = if ctx.tier.is_thorough() { &[12, 16, 17] } else { &[16] };
        for &p in fill_powers { for v in [1u8, 2] { for pos in [0usize, 2, 4] { for d in [-1i64, 0, 1] { for whole in [false, true] {
            let len_of = |items: &[Item]| items.iter().filter(|i| i.min_version() <= v).map(|i| i.wire(v, true).len()).sum::<usize>();
            let others = 8 + len_of(&small[..pos]) + if whole { len_of(&small[pos..]) + 24 } else { 0 };
            let size = ((1i64 << p) + d) as usize - others;
            let mut full = small.clone(); full.insert(pos, big_key(size - 32));
            configs.push(with_diff(format!("{}{}{}{}v{v}@{pos}", if whole { "total" } else { "fill" }, 1u64 << p, if d < 0 { "-" } else { "+" }, d.abs()), full));
        } } } } }
        // (thorough) two large PDUs in one response, adjacent and apart
        if ctx.tier.is_thorough() {
            for (a, b) in [(65537usize, 65537usize), (65537, 4096), (4096, 65537), (131073, 65536)] { for (pa, pb) in [(0usize, 1usize), (0, 5), (2, 3), (4, 5)] {
                let mut full = small.clone(); full.insert(pa, big_key(a - 32)); full.insert(pb, Item::Key { ski: [0x3C; 20], asn: 70002, info: (0..b - 32).map(|i| (i * 11) as u8).collect() });
                configs.push(with_diff(format!("keypdu{a}@{pa}+keypdu{b}@{pb}"), full));
            } }
        }
        let mut counts: Vec<usize> = (0..=40).collect();
        counts.extend([127, 128, 129, 203, 204, 205, 206, 255, 256, 257]);
        if ctx.tier.is_thorough() { counts.extend([511, 512, 513, 1023, 1024, 1025, 4095, 4096, 4097]) }
        for &n in &counts { configs.push(with_diff(format!("origins4x{n}"), (0..n).map(origin).collect())) }
        for n in [127usize, 128, 129] { configs.push(with_diff(format!("origins6x{n}"), (0..n).map(origin6).collect())) }
        for n in [1usize, 40, 204, 205] {
            let mut full: Vec<Item> = (0..n).map(origin).collect(); full.push(big_aspa(1022)); full.push(origin(n));
            configs.push(with_diff(format!("origins4x{n}+aspa1022+1"), full));
        }
        let q = |name: &'static str, bytes: Vec<u8>, q: Q| (name, bytes, q);
        let syms = [
            q("reset0", hdr(0, 2, 0, 8), Q::Reset(0)), q("reset1", hdr(1, 2, 0, 8), Q::Reset(1)), q("reset2", hdr(2, 2, 0, 8), Q::Reset(2)),
            q("serial1.diff", serial_query(1, SERIAL - 1), Q::Serial(1, SERIAL - 1)), q("serial2.diff", serial_query(2, SERIAL - 1), Q::Serial(2, SERIAL - 1)),
        ];
        let seqs: Vec<Vec<usize>> = vec![vec![0], vec![1], vec![2], vec![3], vec![4], vec![1, 3], vec![4, 2]];
        struct Out { evals: u64, nontrivial: u64, oc: BTreeMap<&'static str, u64>, fails: Vec<(&'static str, String, String)> }
        let outs: Vec<Out> = configs.par_iter().map(|data| {
            let mut o = Out { evals: 0, nontrivial: 0, oc: BTreeMap::new(), fails: vec![] };
            let src = match guard(|| Src::new(data)) {
                Ok(s) => s,
                Err(p) => { o.evals += 1; o.fails.push(("C08.data.order_and_octets", format!("data={}", data.name), format!("constructing the items panics: {p}"))); return o }
            };
            for seq in &seqs {
                let names = seq.iter().map(|i| syms[*i].0).collect::<Vec<_>>().join(",");
                let bytes: Vec<u8> = seq.iter().flat_map(|i| syms[*i].1.iter().copied()).collect();
                let qs: Vec<Q> = seq.iter().map(|i| syms[*i].2).collect();
                let lens: Vec<usize> = seq.iter().map(|i| syms[*i].1.len()).collect();
                let (expect, due, complete, _) = model(&qs, &lens, data);
                let l = bytes.len();
                let scripts: [Vec<Ev>; 4] = [
                    vec![Ev::Deliver(l), Ev::Settle, Ev::Close, Ev::Settle],
                    vec![Ev::ShortWrite(1), Ev::Deliver(l), Ev::Settle, Ev::Close, Ev::Settle],
                    vec![Ev::WriteChunk(7), Ev::Deliver(l), Ev::Settle, Ev::Close, Ev::Settle],
                    vec![Ev::WriteBudget(4096), Ev::Deliver(l), Ev::Settle, Ev::Unblock, Ev::Settle, Ev::Close, Ev::Settle],
                ];
                for script in &scripts {
                    let wit = || format!("data={} stream={names} sched={}", data.name, render_script(script));
                    if let Some((_, w)) = &ctx.replay { if *w != wit() { continue } }
                    o.evals += 1;
                    let obs = match guard(|| execute(&src, &bytes, script)) { Ok(x) => x, Err(p) => { o.fails.push(("C08.data.order_and_octets", wit(), format!("driver panicked: {p}"))); continue } };
                    if obs.out.len() > 4096 { o.nontrivial += 1 }
                    let mut ok = true;
                    if let Err(d) = check_against_model(&obs, &expect, complete) { o.fails.push(("C08.data.order_and_octets", wit(), d)); ok = false }
                    if let Ok(p) = parse(&obs.out) {
                        if let Some(d) = prompt_check(script, &obs.marks, &due, &p.unit_raw_end) { o.fails.push(("C08.data.prompt", wit(), d)); ok = false }
                    }
                    *o.oc.entry(if !ok { "violation" } else if obs.out.len() > 4096 { "as-modelled:more-than-4096-octets" } else { "as-modelled:up-to-4096-octets" }).or_insert(0) += 1;
                }
            }
            o
        }).collect();
        for o in outs {
            sp.evals(o.evals); sp.nontrivial(o.nontrivial); sp.merge_outcomes(&o.oc);
            sp.states(o.evals); sp.traces(o.evals); sp.transitions(3 * o.evals);
            for (oracle, w, d) in o.fails { ctx.fail(oracle, w, d) }
        }
        sp.set("configurations", serde_json::json!(configs.iter().map(|c| c.name.clone()).collect::<Vec<_>>()));
        sp.sample_str(|| format!("data={}: items {:?}", configs[3].name, configs[3].full.iter().map(|i| i.wire(2, true).len()).collect::<Vec<_>>()));
        sp.done(true, &format!("{} data sets x 7 query sequences x 4 write schedules", configs.len()));
    }

    //--- (2) schedules -------------------------------------------------------
    let sp = ctx.space("schedules",
        "per stream: every set of <= 3 cut positions x notify events at every position of the event order (own batch / batched with a chunk / two in one batch) with cuts + notifies <= bound, close after quiescence and (deviation <= 2) close batched with the last event; plus 1-octet-write and 1-octet-read variants at deviation <= 1 and, with one notify, the response held back after k octets (k in 0,1,7,8,9,27,28,60,129) until after the notify, and bursts of 2, 3 and 5 notify events in one batch on the idle connection, between / together with fragments of the first header and during a held-back response; each compared with the reference run of the same octets, and at every run to quiescence with the responses the model says are determined by the octets delivered so far; non-trivial = schedules with at least one deviation");
    let transcripts: Mutex<HashSet<u64>> = Mutex::new(HashSet::new());
    let inside_pdu = AtomicU64::new(0);
    let first_last: Mutex<Option<(usize, Vec<Ev>, usize, Vec<Ev>)>> = Mutex::new(None);
    let mut completed_bound = 0usize;
    let per_bound: Mutex<Vec<u64>> = Mutex::new(vec![0; max_bound + 1]);

    // Judges one schedule: outcome class and the oracles it violates (with
    // details). A pure function of (stream, script), so that the failures
    // can be reported in a canonical order after the parallel phase.
    let judge_on = |st: &Stream, rf: &Obs, script: &[Ev], party: Party| -> Result<(&'static str, Obs, Vec<(&'static str, String)>), String> {
        let obs = guard(|| execute_with(&src, &st.bytes, script, party, None))?;
        let fired = script.iter().filter(|e| matches!(e, Ev::Notify)).count();
        let mut bad: Vec<(&'static str, String)> = Vec::new();
        if obs.conn_panicked { bad.push(("C08.sched.terminates", "connection task panicked".into())) }
        else if obs.livelock { bad.push(("C08.sched.terminates", "read polled > 1000 times after end of stream (livelock)".into())) }
        else if obs.spin { bad.push(("C08.sched.terminates", "no quiescence (spin)".into())) }
        else if obs.flood { bad.push(("C08.sched.terminates", "more than 8 MiB written without waiting for input (flood)".into())) }
        else if !obs.conn_ended { bad.push(("C08.sched.terminates", "connection still open at quiescence after the client closed (hang)".into())) }
        let mut notifies = 0;
        match parse(&obs.out) {
            Err(e) => bad.push(("C08.sched.framing", format!("transcript is not a PDU sequence: {e}; got {}", hex(&obs.out)))),
            Ok(parsed) => {
                notifies = parsed.notifies;
                if parsed.stripped != rf.out {
                    let d = parsed.stripped.iter().zip(rf.out.iter()).position(|(a, b)| a != b).unwrap_or(parsed.stripped.len().min(rf.out.len()));
                    let ru = parse(&rf.out).map(|p| p.units.len()).unwrap_or(0);
                    bad.push(("C08.sched.responses_equal", format!("responses differ from the one-piece run at octet {d}: {} octets / {} units here, {} octets / {} units there; {} of {} client octets consumed; here {} there {}",
                        parsed.stripped.len(), parsed.units.len(), rf.out.len(), ru, obs.consumed, st.bytes.len(),
                        rpki_verif::trunc(&hex(&parsed.stripped), 96), rpki_verif::trunc(&hex(&rf.out), 96))));
                }
                if !parsed.notify_inside.is_empty() {
                    bad.push(("C08.sched.notify_between_responses", format!("Serial Notify inside a response at offsets {:?}", parsed.notify_inside)));
                } else if !parsed.notify_bad.is_empty() {
                    bad.push(("C08.sched.notify_between_responses", parsed.notify_bad.join("; ")));
                }
                if parsed.notifies > fired {
                    bad.push(("C08.sched.notify_count", format!("{} Serial Notify PDUs for {fired} notify events", parsed.notifies)));
                }
                if let Some(d) = prompt_check(script, &obs.marks, &st.due, &parsed.unit_raw_end) {
                    bad.push(("C08.sched.prompt", d));
                }
                // A notification must show up as a Serial Notify if the server had an
                // opportunity to send it: after the notify event there is a run to
                // quiescence, before the client closes, at which (a) the connection is
                // still open, (b) writes are not held back and (c) the octets received
                // so far end on a query boundary of an in-frame stream, i.e. the server
                // is idle between queries with the notification pending.
                // Correction (false alarm on the negative control "select(header,
                // notify)"): the precondition used to be only "a run to quiescence
                // follows the notify and the connection stays open". With `d8 N | d4 C |`
                // the notification arrives while a serial query is half received; the
                // server may not interrupt the query (notifies belong between responses),
                // and the rest of the query arrives together with the close, so a server
                // that looks at the socket first answers and then sees the end of the
                // stream. C08 does not promise delivery to a client that closes right
                // after its query; (c) was added for that.
                let close_at = script.iter().position(|e| matches!(e, Ev::Close)).unwrap_or(script.len());
                // Every such point is an opportunity of its own: notifications fired after the
                // previous one must be announced again (one Serial Notify per opportunity at least;
                // events between two opportunities may be merged into one).
                let mut opportunities = 0usize;
                {
                    let (mut d, mut held, mut pending) = (0usize, false, false);
                    for e in &script[..close_at] {
                        match e {
                            Ev::Deliver(k) => d += k,
                            Ev::Notify => pending = true,
                            Ev::WriteBudget(_) => held = true,
                            Ev::Unblock => held = false,
                            Ev::Settle => if pending && !held && st.idle_at.contains(&d) { opportunities += 1; pending = false },
                            _ => {}
                        }
                    }
                }
                if obs.alive_before_close && parsed.notifies < opportunities {
                    bad.push(("C08.sched.notify_delivered", format!("{fired} notify events; at {opportunities} separate moments the connection was open and idle between queries with a notification pending, but only {} Serial Notify PDUs were sent", parsed.notifies)));
                }
            }
        }
        let class = if !bad.is_empty() { "violation" }
            else if notifies > 0 { "equal+serial-notify" }
            else if fired > 0 { "equal,notify-not-sent" }
            else { "equal" };
        Ok((class, obs, bad))
    };
    let judge_party = |si: usize, script: &[Ev], party: Party| judge_on(&streams[si], &refs[si], script, party);
    let judge = |si: usize, script: &[Ev]| judge_party(si, script, Party::Alone);
    let witness = |si: usize, script: &[Ev]| format!("stream={} hex={} sched={}", streams[si].names, hex(&streams[si].bytes), render_script(script));
    // failures of the parallel phase: (oracle, stream, script)
    let failures: Mutex<Vec<(&'static str, usize, Vec<Ev>)>> = Mutex::new(Vec::new());

    let run_one = |si: usize, script: &[Ev], local: &mut BTreeMap<&'static str, u64>, seen: &mut HashSet<u64>,
                   n: &mut (u64, u64, u64), fails: &mut Vec<(&'static str, usize, Vec<Ev>)>| {
        let st = &streams[si];
        let (class, obs, bad) = match judge(si, script) {
            Ok(x) => x,
            Err(p) => { ctx.machinery_error(format!("driver panicked on {}: {p}", witness(si, script))); return }
        };
        n.0 += 1;
        n.1 += script.iter().filter(|e| !matches!(e, Ev::Settle)).count() as u64;
        seen.insert(fnv(&obs.out));
        // notify fired while a PDU is partly delivered (measured, by the known PDU boundaries)
        let mut pos = 0usize;
        let mut hit = false;
        for e in script { match e { Ev::Deliver(k) => pos += k, Ev::Notify => if !st.bounds.contains(&pos) { hit = true }, _ => {} } }
        if hit { n.2 += 1 }
        for (oracle, _) in bad { fails.push((oracle, si, script.to_vec())) }
        *local.entry(class).or_insert(0) += 1;
    };

    if let Some((_, sc)) = &replay_case {
        match judge(0, sc) {
            Ok((class, obs, bad)) => {
                println!("replay: {} -> {class}; transcript {}", witness(0, sc), hex(&obs.out));
                for (oracle, detail) in bad { ctx.fail(oracle, witness(0, sc), detail) }
            }
            Err(p) => ctx.machinery_error(format!("driver panicked: {p}")),
        }
    }
    for bound in 0..=max_bound {
        if replay_case.is_some() { break }
        // jobs: (stream, number of cuts, number of notifies, first cut position)
        // for every split cuts + notifies = bound; a job enumerates the
        // remaining cut positions itself
        let mut jobs: Vec<(usize, usize, usize, usize)> = Vec::new();
        for (si, st) in streams.iter().enumerate() {
            if bound > bound_by_pdus[st.npdus - 1] { continue }
            for c in 0..=bound.min(3) {
                let j = bound - c;
                if j > 3 || c >= st.bytes.len() { continue }
                if c == 0 { jobs.push((si, 0, j, 0)) }
                else { for first in 1..=(st.bytes.len() - c) { jobs.push((si, c, j, first)) } }
            }
        }
        let cutsets = |job: &(usize, usize, usize, usize)| -> Vec<Vec<usize>> {
            let mut cs = Vec::new();
            let n = streams[job.0].bytes.len() - 1;
            if job.1 == 0 { cs.push(vec![]) } else { combos(n, job.1, job.3 + 1, &mut vec![job.3], &mut cs) }
            cs
        };
        let count = AtomicU64::new(0);
        jobs.par_iter().for_each(|job| {
            let (si, j) = (job.0, job.2);
            let st = &streams[si];
            let mut local = BTreeMap::new();
            let mut seen = HashSet::new();
            let mut n = (0u64, 0u64, 0u64);
            let mut fails = Vec::new();
            let mut scs: Vec<Vec<Ev>> = Vec::new();
            for cuts in cutsets(job) {
                scs.clear();
                schedules(st.bytes.len(), &cuts, j, false, &mut scs);
                if bound <= 2 { schedules(st.bytes.len(), &cuts, j, true, &mut scs); }
                if bound <= 1 {
                    // write-side and read-side granularity variants of the same schedules
                    let base: Vec<Vec<Ev>> = scs.clone();
                    for b in &base {
                        let mut w = vec![Ev::WriteChunk(1)]; w.extend_from_slice(b); scs.push(w);
                        let mut w = vec![Ev::ShortWrite(1)]; w.extend_from_slice(b); scs.push(w);
                        let mut r = vec![Ev::ReadChunk(1)]; r.extend_from_slice(b); scs.push(r);
                    }
                }
                if bound == 2 && cuts.is_empty() && j == 2 {
                    // notification bursts: n notify() calls in one batch, on the idle connection (before / after
                    // the queries), between and together with fragments of the first header, and while a response is held back
                    let l = st.bytes.len();
                    for n in [2usize, 3, 5] {
                        let burst = |sc: &mut Vec<Ev>| { for _ in 0..n { sc.push(Ev::Notify) } };
                        let mut a = vec![]; burst(&mut a); a.extend([Ev::Settle, Ev::Deliver(l), Ev::Settle, Ev::Close, Ev::Settle]); scs.push(a);
                        let mut a = vec![Ev::Deliver(l), Ev::Settle]; burst(&mut a); a.extend([Ev::Settle, Ev::Close, Ev::Settle]); scs.push(a);
                        for c in 1..8usize.min(l) {
                            let mut a = vec![Ev::Deliver(c), Ev::Settle]; burst(&mut a); a.extend([Ev::Settle, Ev::Deliver(l - c), Ev::Settle, Ev::Close, Ev::Settle]); scs.push(a);
                            let mut a = vec![Ev::Deliver(c)]; burst(&mut a); a.extend([Ev::Settle, Ev::Deliver(l - c), Ev::Settle, Ev::Close, Ev::Settle]); scs.push(a);
                        }
                        for k in [0usize, 9, 60] {
                            let mut a = vec![Ev::WriteBudget(k), Ev::Deliver(l), Ev::Settle]; burst(&mut a); a.extend([Ev::Settle, Ev::Unblock, Ev::Settle, Ev::Close, Ev::Settle]); scs.push(a);
                        }
                    }
                }
                if bound == 1 && cuts.is_empty() && j == 1 {
                    // back-pressure: the response is stuck after k octets, the
                    // notify arrives meanwhile, then the client reads on
                    for k in [0usize, 1, 7, 8, 9, 27, 28, 60, 129] {
                        scs.push(vec![Ev::WriteBudget(k), Ev::Deliver(st.bytes.len()), Ev::Settle, Ev::Notify, Ev::Settle,
                                      Ev::Unblock, Ev::Settle, Ev::Close, Ev::Settle]);
                        scs.push(vec![Ev::WriteBudget(k), Ev::Deliver(st.bytes.len()), Ev::Notify, Ev::Settle,
                                      Ev::Unblock, Ev::Settle, Ev::Close, Ev::Settle]);
                    }
                }
                for sc in &scs { run_one(si, sc, &mut local, &mut seen, &mut n, &mut fails); }
            }
            sp.merge_outcomes(&local);
            sp.evals(n.0); sp.states(n.0); sp.traces(n.0); sp.transitions(n.1);
            if bound > 0 { sp.nontrivial(n.0) }
            inside_pdu.fetch_add(n.2, Ordering::Relaxed);
            count.fetch_add(n.0, Ordering::Relaxed);
            transcripts.lock().unwrap().extend(seen);
            if !fails.is_empty() { failures.lock().unwrap().append(&mut fails) }
        });
        // report this bound's failures in canonical order (so that the ones
        // that get printed do not depend on thread timing); details are
        // recomputed for the first few per oracle only
        {
            let mut fs = std::mem::take(&mut *failures.lock().unwrap());
            fs.sort();
            let mut shown: BTreeMap<&'static str, u32> = BTreeMap::new();
            for (oracle, si, script) in fs {
                let k = shown.entry(oracle).or_insert(0);
                let detail = if *k < 8 {
                    *k += 1;
                    judge(si, &script).ok().and_then(|(_, _, bad)| bad.into_iter().find(|(o, _)| *o == oracle).map(|(_, d)| d)).unwrap_or_default()
                } else { String::new() };
                ctx.fail(oracle, witness(si, &script), detail);
            }
        }
        // remember the first and the last schedule of the whole enumeration
        if let (Some(f), Some(l)) = (jobs.first(), jobs.last()) {
            let mk = |job: &(usize, usize, usize, usize), last: bool| {
                let mut cs = cutsets(job);
                let cuts = if last { cs.pop().unwrap() } else { cs.swap_remove(0) };
                let mut scs = Vec::new();
                schedules(streams[job.0].bytes.len(), &cuts, job.2, false, &mut scs);
                (job.0, if last { scs.pop().unwrap() } else { scs.swap_remove(0) })
            };
            let mut fl = first_last.lock().unwrap();
            let (li, ls) = mk(l, true);
            match fl.as_mut() {
                None => { let (fi, fs) = mk(f, false); *fl = Some((fi, fs, li, ls)) }
                Some(x) => { x.2 = li; x.3 = ls }
            }
        }
        per_bound.lock().unwrap()[bound] = count.load(Ordering::Relaxed);
        completed_bound = bound;
    }

    // replay-determinism self-check: first and last schedule, twice each
    let mut determinism = "not run";
    let fl = first_last.lock().unwrap().clone();
    if let Some((fi, fs, li, ls)) = fl {
        determinism = "identical";
        sp.sample_str(|| format!("first schedule: stream={} sched={}; last schedule: stream={} sched={}",
            streams[fi].names, render_script(&fs), streams[li].names, render_script(&ls)));
        for (si, sc) in [(fi, fs), (li, ls)] {
            let a = execute(&src, &streams[si].bytes, &sc);
            let b = execute(&src, &streams[si].bytes, &sc);
            if a != b {
                determinism = "DIVERGED";
                ctx.machinery_error(format!("replay of stream={} sched={} is not deterministic: {} vs {}",
                    streams[si].names, render_script(&sc), hex(&a.out), hex(&b.out)));
            }
        }
    }
    // a schedule that is known to matter, written out
    sp.sample_str(|| {
        let sc = [Ev::Deliver(3), Ev::Settle, Ev::Notify, Ev::Settle, Ev::Deliver(5), Ev::Settle, Ev::Close, Ev::Settle];
        let o = execute(&src, &streams[0].bytes, &sc);
        format!("stream={} sched={} -> {} octets, {} consumed", streams[0].names, render_script(&sc), o.out.len(), o.consumed)
    });
    let distinct = transcripts.lock().unwrap().len();
    sp.set("distinct_response_transcripts", serde_json::json!(distinct));
    sp.set("deviation_bound_completed", serde_json::json!(completed_bound));
    sp.set("deviation_bound_by_stream_pdus", serde_json::json!({"1": bound_by_pdus[0], "2": bound_by_pdus[1], "3": bound_by_pdus[2]}));
    sp.set("schedules_per_bound", serde_json::json!(*per_bound.lock().unwrap()));
    sp.set("notify_while_a_pdu_is_partly_delivered", serde_json::json!(inside_pdu.load(Ordering::Relaxed)));
    sp.set("replay_determinism", serde_json::json!(determinism));
    let exhaustive = true;
    sp.done(exhaustive, &format!("deviation bound {} on 1-PDU streams, {} on 2-PDU streams, {} on 3-PDU streams ({} streams)",
        bound_by_pdus[0], bound_by_pdus[1], bound_by_pdus[2], streams.len()));

    //--- (2b) the header field domains of malformed queries --------------------------
    if ctx.replay.is_none() || mal_replay {
    let sp = ctx.space("malformed.headers",
        "one subject header with EVERY combination of version octet {0,1,2,3,255} x PDU type {0..=11, 255} x length field {every value 0..=40, 0xFF, 0x100, 0xFFFF, 0x10000, 2^31-1, 2^31, 2^32-1, and the two correct lengths 8 and 12 as a truncation, shift, sign or byte-order slip leaves them: +2^8, +2^16, +2^24, +2^31, <<8, <<16, <<24, negated} x session/zero field {0, 1, 0xFFFF, the source's session}, reached by every route into the connection: as first PDU, as second PDU after a reset query of version 0 / 1 / 2, after a serial query, after a recoverable error (unsupported version; non-query; bad length), as third PDU after query+query, error+query, query+version error, query+non-query, error+error; followed by nothing / by a good reset query right after the header / by the announced number of body octets and then a good reset query; delivered in one piece and compared with the octet-level protocol model (exact data response for every complete well-formed query; exactly one well-formed Error Report with a fitting code, version and encapsulated PDU and never a data response for everything else; every reading RFC 8210 leaves open is accepted: going on after the header / skipping the announced length / closing after the error, a rejected PDU counting or not counting as version negotiation); then under the schedule dimensions at deviation <= 1 (a cut at every position from the start of the subject header to 12 octets on, one notify before / with / after the octets - which is the notify-before-first-query route -, 1-octet reads, 1-octet writes, a short first write, close batched with the octets) compared with the one-piece run; quick tier: schedules for every header on the first-PDU route and for a boundary subset of lengths on the other routes; non-trivial = streams whose subject header is malformed or unsupported (measured: the model demands an Error Report for it)");
    {
        let versions = [0u8, 1, 2, 3, 255];
        let types: Vec<u8> = (0u8..=11).chain([255u8]).collect();
        let mut lengths: Vec<u32> = (0u32..=40).collect();
        lengths.extend([0xFF, 0x100, 0xFFFF, 0x1_0000, 0x7FFF_FFFF, 0x8000_0000, 0xFFFF_FFFF]);
        for c in [8u32, 12] { lengths.extend([c + 0x100, c + 0x1_0000, c + 0x100_0000, c + 0x8000_0000, c << 8, c << 16, c << 24, 0u32.wrapping_sub(c)]) }
        lengths.sort(); lengths.dedup();
        let sessions = [0u16, 1, 0xFFFF, SESSION];
        // lengths that get the schedule dimension on every route in the quick tier
        let boundary: [u32; 14] = [0, 1, 7, 8, 9, 11, 12, 13, 16, 40, 0x108, 0x1_000C, 0x0800_0000, 0xFFFF_FFFF];
        const TAILS: [&str; 3] = ["none", "reset", "body+reset"];

        struct Route { name: &'static str, prefix: Vec<u8>, npdus: usize, follower: Option<u8> }
        let route = |name: &'static str, parts: &[Vec<u8>], follower: Option<u8>| Route { name, prefix: parts.concat(), npdus: parts.len(), follower };
        let reset = |v: u8| hdr(v, 2, 0, 8);
        let routes = vec![
            route("first", &[], None),
            route("after-reset0", &[reset(0)], Some(0)),
            route("after-reset1", &[reset(1)], Some(1)),
            route("after-reset2", &[reset(2)], Some(2)),
            route("after-serial1", &[serial_query(1, SERIAL - 1)], Some(1)),
            route("after-unsupported-version", &[reset(3)], None),
            route("after-nonquery1", &[hdr(1, 9, 0, 8)], Some(1)),
            route("after-badlength1", &[hdr(1, 1, SESSION, 8)], Some(1)),
            route("after-reset1+serial1", &[reset(1), serial_query(1, SERIAL - 1)], Some(1)),
            route("after-unsupported-version+reset1", &[reset(3), reset(1)], Some(1)),
            route("after-reset1+version-switch", &[reset(1), reset(3)], Some(1)),
            route("after-reset2+nonquery2", &[reset(2), hdr(2, 4, 0, 8)], Some(2)),
            route("after-unsupported-version-twice", &[reset(3), reset(255)], None),
        ];

        // the schedules of deviation <= 1 for a stream of `len` octets whose subject header starts at `hs`
        let deviations = |len: usize, hs: usize, out: &mut Vec<Vec<Ev>>| {
            out.clear();
            let base = vec![Ev::Deliver(len), Ev::Settle, Ev::Close, Ev::Settle];
            out.push(vec![Ev::Deliver(len), Ev::Close, Ev::Settle]);
            for first in [Ev::ReadChunk(1), Ev::WriteChunk(1), Ev::ShortWrite(1)] { let mut w = vec![first]; w.extend_from_slice(&base); out.push(w) }
            for p in hs.max(1)..=(hs + 12).min(len - 1) { schedules(len, &[p], 0, false, out) }
            schedules(len, &[], 1, false, out);
        };

        struct Out { evals: u64, nontrivial: u64, trans: u64, scheduled: u64, oc: BTreeMap<String, u64>, fails: Vec<(&'static str, String, String)> }
        let rename = |oracle: &'static str| -> &'static str { match oracle {
            "C08.sched.responses_equal" => "C08.malformed.sched.responses_equal", "C08.sched.terminates" => "C08.malformed.sched.terminates",
            "C08.sched.framing" => "C08.malformed.sched.framing", "C08.sched.notify_between_responses" => "C08.malformed.sched.notify_between_responses",
            "C08.sched.notify_count" => "C08.malformed.sched.notify_count", "C08.sched.notify_delivered" => "C08.malformed.sched.notify_delivered",
            "C08.sched.prompt" => "C08.malformed.sched.prompt", other => other } };
        let mk_stream = |bytes: Vec<u8>, npdus: usize| Stream { names: String::new(), bytes, qs: vec![], npdus, bounds: vec![], due: vec![], idle_at: vec![0] };

        if let Some((_, w)) = &ctx.replay {
            // one case: the octets and the schedule the witness names
            let bytes = rpki_verif::unhex(w.split_whitespace().find_map(|t| t.strip_prefix("hex=")).unwrap_or(""));
            let Some(script) = w.split_once("sched=").and_then(|(_, r)| parse_script(r)) else { eprintln!("machinery: cannot read the witness {w}"); std::process::exit(2) };
            let one = vec![Ev::Deliver(bytes.len()), Ev::Settle, Ev::Close, Ev::Settle];
            sp.evals(2);
            match guard(|| execute(&src, &bytes, &one)) {
                Err(p) => ctx.fail("C08.malformed.model", w.clone(), format!("driver panicked: {p}")),
                Ok(rf) => {
                    println!("replay: one-piece transcript {}", hex(&rf.out));
                    if script == one { if let Err(d) = check_against_byte_model(&rf, &bytes, &base) { ctx.fail("C08.malformed.model", w.clone(), d) } }
                    let st = mk_stream(bytes.clone(), 1);
                    match judge_on(&st, &rf, &script, Party::Alone) {
                        Ok((class, obs, bad)) => { println!("replay: {w} -> {class}; transcript {}", hex(&obs.out)); for (oracle, d) in bad { ctx.fail(rename(oracle), w.clone(), d) } }
                        Err(p) => ctx.machinery_error(format!("driver panicked: {p}")),
                    }
                }
            }
            sp.done(false, "replay of one case");
        } else {
        let jobs: Vec<(usize, u8, u8)> = (0..routes.len()).flat_map(|r| versions.iter().flat_map(move |v| (0..13usize).map(move |t| (r, *v, t as u8)))).collect();
        let thorough = ctx.tier.is_thorough();
        let outs: Vec<Out> = jobs.par_iter().map(|&(ri, v, ti)| {
            let mut o = Out { evals: 0, nontrivial: 0, trans: 0, scheduled: 0, oc: BTreeMap::new(), fails: vec![] };
            let (rt, t) = (&routes[ri], types[ti as usize]);
            let fv = rt.follower.unwrap_or(if v <= MODEL_MAX_VERSION { v } else { 1 });
            let mut scs: Vec<Vec<Ev>> = Vec::new();
            for &l in &lengths { for &s in &sessions { for tail in 0..3usize {
                let whole_serial = t == 1 && l == 12;
                if tail == 2 && (whole_serial || l <= 8 || l > 40) { continue }
                let hs = rt.prefix.len();
                let mut bytes = rt.prefix.clone();
                bytes.extend(hdr(v, t, s, l));
                if whole_serial { bytes.extend((SERIAL - 1).to_be_bytes()) }
                if tail == 2 { let f = reset(fv); bytes.extend((0..(l as usize - 8)).map(|i| f[i % 8])) }
                if tail >= 1 { bytes.extend(reset(fv)) }
                let one = [Ev::Deliver(bytes.len()), Ev::Settle, Ev::Close, Ev::Settle];
                let wit = |sc: &[Ev]| format!("route={} header=v{v},t{t},s{s:#x},len{l} tail={} hex={} sched={}", rt.name, TAILS[tail], hex(&bytes), render_script(sc));
                o.evals += 1; o.trans += 2;
                let rf = match guard(|| execute(&src, &bytes, &one)) { Ok(x) => x, Err(p) => { o.fails.push(("C08.malformed.model", wit(&one), format!("driver panicked: {p}"))); continue } };
                // what the model says about the subject header on its own, for the counts
                let settled = rt.follower.filter(|_| rt.name != "after-nonquery1" && rt.name != "after-badlength1");
                let version_fits = match settled { Some(n) => v == n, None => v <= MODEL_MAX_VERSION };
                let well_formed = version_fits && (whole_serial || (t == 2 && l == 8));
                if !well_formed && t != T_ERROR { o.nontrivial += 1 }
                let verdict = check_against_byte_model(&rf, &bytes, &base);
                let class = match (&verdict, parse(&rf.out)) {
                    (Err(_), _) => "violation".to_string(),
                    (Ok(()), Ok(p)) => {
                        let subject = match p.units.get(rt.npdus) {
                            None => "no-response".to_string(),
                            Some(&(T_RESPONSE, ..)) => "data".to_string(),
                            Some(&(T_RESET, ..)) => "cache-reset".to_string(),
                            Some(&(_, a, _)) => format!("error-code-{}", u16::from_be_bytes([p.stripped[a + 2], p.stripped[a + 3]])),
                        };
                        let version_open = settled.is_none() && rt.follower.is_some() && v <= MODEL_MAX_VERSION && Some(v) != rt.follower;
                        format!("subject:{}->{subject}", if t == T_ERROR { "client-error-report" } else if version_open { "version-after-rejected-pdu(open)" } else if well_formed { "well-formed" } else if !version_fits { "version" } else { "malformed" })
                    }
                    (Ok(()), Err(_)) => "violation".to_string(),
                };
                *o.oc.entry(class).or_insert(0) += 1;
                if let Err(d) = verdict { o.fails.push(("C08.malformed.model", wit(&one), d)); continue }
                // the schedule dimension
                if !(thorough || ri == 0 || (tail == 1 && boundary.contains(&l) && (s == 0 || s == SESSION))) { continue }
                o.scheduled += 1;
                let st = mk_stream(bytes.clone(), rt.npdus + 1);
                deviations(bytes.len(), hs, &mut scs);
                for sc in &scs {
                    o.evals += 1; o.trans += sc.len() as u64;
                    match judge_on(&st, &rf, sc, Party::Alone) {
                        Ok((class, _, bad)) => {
                            *o.oc.entry(format!("schedule:{class}")).or_insert(0) += 1;
                            for (oracle, d) in bad { o.fails.push((rename(oracle), wit(sc), d)) }
                        }
                        Err(p) => o.fails.push(("C08.malformed.sched.terminates", wit(sc), format!("driver panicked: {p}"))),
                    }
                }
            } } }
            o
        }).collect();
        let (mut streams_n, mut scheduled) = (0u64, 0u64);
        let mut fails: Vec<(&'static str, String, String)> = Vec::new();
        for o in outs {
            sp.evals(o.evals); sp.nontrivial(o.nontrivial); sp.states(o.evals); sp.traces(o.evals); sp.transitions(o.trans);
            for (k, n) in &o.oc { sp.outcomes_n(k, *n); if !k.starts_with("schedule:") { streams_n += n } }
            scheduled += o.scheduled;
            fails.extend(o.fails);
        }
        // the shortest witnesses first: those are the ones that get printed
        fails.sort_by(|a, b| (a.0, a.1.len(), &a.1).cmp(&(b.0, b.1.len(), &b.1)));
        for (oracle, w, d) in fails { ctx.fail(oracle, w, d) }
        sp.set("versions", serde_json::json!(versions)); sp.set("types", serde_json::json!(types));
        sp.set("lengths", serde_json::json!(lengths)); sp.set("session_or_zero_field", serde_json::json!(sessions));
        sp.set("routes", serde_json::json!(routes.iter().map(|r| format!("{}={}", r.name, hex(&r.prefix))).collect::<Vec<_>>()));
        sp.set("tails", serde_json::json!(TAILS));
        sp.set("streams", serde_json::json!(streams_n)); sp.set("streams_with_schedule_dimension", serde_json::json!(scheduled));
        sp.sample_str(|| { let b = hdr(1, 2, 0, 4); let o = execute(&src, &b, &[Ev::Deliver(8), Ev::Settle, Ev::Close, Ev::Settle]); format!("route=first header=v1,t2,s0x0,len4 tail=none hex={} -> {}", hex(&b), hex(&o.out)) });
        sp.sample_str(|| { let mut b = reset(1); b.extend(hdr(255, 1, 0xFFFF, 12)); b.extend((SERIAL - 1).to_be_bytes()); b.extend(reset(1)); let o = execute(&src, &b, &[Ev::Deliver(b.len()), Ev::Settle, Ev::Close, Ev::Settle]); format!("route=after-reset1 header=v255,t1,s0xffff,len12 tail=reset hex={} -> {} response units", hex(&b), parse(&o.out).map(|p| p.units.len()).unwrap_or(0)) });
        sp.done(true, &format!("{} routes x {} versions x {} types x {} lengths x {} session/zero values x <= 3 tails = {} streams in one piece; deviation bound 1 on {} of them", routes.len(), versions.len(), types.len(), lengths.len(), sessions.len(), streams_n, scheduled));
        }
    }
    }

    if replay_case.is_none() && !data_replay && !mal_replay {
    //--- (3) a second holder of the notify sender ------------------------------------
    let sp = ctx.space("participants.notify",
        "streams of <= 2 PDUs that leave the connection open and in frame; the observed connection shares its NotifySender with (a) a receiver from subscribe() that is never polled, (b) a second connection that stays idle, (c) a second connection whose reset response is stuck after 0 / 9 / 60 octets; schedules: <= 1 cut and 0 to 3 notify events in every arrangement (own batches, batched with chunks, bursts) as in the schedules space; the observed connection must behave exactly as when it is alone: same responses, Serial Notify only between responses, at most one per event, at least one per moment at which it is idle with a notification pending; non-trivial = schedules with >= 2 notify events (the second one meets a channel the other participant has not drained)");
    {
        let parties = [Party::IdleSubscriber, Party::IdleConn, Party::StalledConn(0), Party::StalledConn(9), Party::StalledConn(60)];
        let sis: Vec<usize> = (0..streams.len()).filter(|i| streams[*i].npdus <= 2 && streams[*i].idle_at.len() == streams[*i].npdus + 1
            && !streams[*i].names.contains("error") && (ctx.tier.is_thorough() || streams[*i].npdus == 1 || *i % 4 == 0)).collect();
        struct Out { evals: u64, nontrivial: u64, trans: u64, oc: BTreeMap<&'static str, u64>, fails: Vec<(&'static str, String, String)> }
        let outs: Vec<Out> = sis.par_iter().map(|&si| {
            let mut o = Out { evals: 0, nontrivial: 0, trans: 0, oc: BTreeMap::new(), fails: vec![] };
            let l = streams[si].bytes.len();
            let mut scs: Vec<Vec<Ev>> = Vec::new();
            for j in 0..=3usize {
                schedules(l, &[], j, false, &mut scs);
                if j <= 2 { for c in 1..l { schedules(l, &[c], j, false, &mut scs) } }
            }
            for party in parties { for sc in &scs {
                let fired = sc.iter().filter(|e| matches!(e, Ev::Notify)).count();
                o.evals += 1; o.trans += sc.len() as u64; if fired >= 2 { o.nontrivial += 1 }
                let wit = || format!("party={} stream={} hex={} sched={}", party.render(), streams[si].names, hex(&streams[si].bytes), render_script(sc));
                match judge_party(si, sc, party) {
                    Ok((class, _, bad)) => {
                        *o.oc.entry(class).or_insert(0) += 1;
                        for (oracle, d) in bad { o.fails.push((match oracle {
                            "C08.sched.notify_delivered" => "C08.party.notify_delivered", "C08.sched.notify_count" => "C08.party.notify_count",
                            "C08.sched.responses_equal" => "C08.party.responses_equal", "C08.sched.terminates" => "C08.party.terminates", other => other }, wit(), d)) }
                    }
                    Err(p) => ctx.machinery_error(format!("driver panicked on {}: {p}", wit())),
                }
            } }
            o
        }).collect();
        for o in outs {
            sp.evals(o.evals); sp.nontrivial(o.nontrivial); sp.merge_outcomes(&o.oc); sp.states(o.evals); sp.traces(o.evals); sp.transitions(o.trans);
            for (oracle, w, d) in o.fails { ctx.fail(oracle, w, d) }
        }
        sp.set("streams", serde_json::json!(sis.len()));
        sp.sample_str(|| format!("party={} stream={} sched=N | N | d8 | C |", Party::IdleSubscriber.render(), streams[sis[0]].names));
        sp.done(true, &format!("{} streams x {} other participants x every arrangement of <= 3 notify events with <= 1 cut", sis.len(), parties.len()));
    }

    //--- (4) the source as a participant -----------------------------------------------
    let sp = ctx.space("participants.source",
        "streams of <= 2 well-formed queries; the source moves from (serial 7, diff from 6 retained) to (serial 8, one origin added, one replaced, diff from 7 retained, diff from 6 dropped) as an event X at every point of the schedule: before / after / batched with the octets, at every cut position, and - with the response held back after k octets, for EVERY k up to the length of the responses - while a response is partly written, alone and together with a notify; oracle: every response is, octet for octet, the model's response for ONE of the two states (payload and End of Data of the same state), namely the old state if the response was complete before X, the new one if the query was not complete before X, either otherwise; non-trivial = schedules with X inside a held-back response");
    {
        let d7 = Data::base(); let d8 = Data::next();
        let sis: Vec<usize> = (0..streams.len()).filter(|i| {
            let st = &streams[*i];
            st.npdus <= 2 && st.qs.iter().all(|q| matches!(q, Q::Reset(_) | Q::Serial(..))) && model(&st.qs, &st.bounds.windows(2).map(|w| w[1] - w[0]).collect::<Vec<_>>(), &d7).2
        }).collect();
        struct Out { evals: u64, nontrivial: u64, trans: u64, oc: BTreeMap<&'static str, u64>, fails: Vec<(&'static str, String, String)> }
        let outs: Vec<Out> = sis.par_iter().map(|&si| {
            let mut o = Out { evals: 0, nontrivial: 0, trans: 0, oc: BTreeMap::new(), fails: vec![] };
            let st = &streams[si];
            let lens: Vec<usize> = st.bounds.windows(2).map(|w| w[1] - w[0]).collect();
            let (e7, e8) = (model(&st.qs, &lens, &d7).0, model(&st.qs, &lens, &d8).0);
            let total = |e: &Vec<Expect>| e.iter().map(|x| if let Expect::Exact(b) = x { b.len() } else { 64 }).sum::<usize>();
            let rmax = total(&e7).max(total(&e8));
            let l = st.bytes.len();
            let x = Ev::User(X_SOURCE_ADVANCES);
            let mut scs: Vec<Vec<Ev>> = vec![
                vec![x, Ev::Settle, Ev::Deliver(l), Ev::Settle, Ev::Close, Ev::Settle],
                vec![Ev::Deliver(l), Ev::Settle, x, Ev::Settle, Ev::Close, Ev::Settle],
                vec![Ev::Deliver(l), x, Ev::Settle, Ev::Close, Ev::Settle],
                vec![Ev::Deliver(l), Ev::Settle, Ev::Close, Ev::Settle],
            ];
            for c in 1..l {
                scs.push(vec![Ev::Deliver(c), Ev::Settle, x, Ev::Settle, Ev::Deliver(l - c), Ev::Settle, Ev::Close, Ev::Settle]);
                scs.push(vec![Ev::Deliver(c), x, Ev::Settle, Ev::Deliver(l - c), Ev::Settle, Ev::Close, Ev::Settle]);
            }
            for k in 0..=rmax {
                scs.push(vec![Ev::WriteBudget(k), Ev::Deliver(l), Ev::Settle, x, Ev::Settle, Ev::Unblock, Ev::Settle, Ev::Close, Ev::Settle]);
                scs.push(vec![Ev::WriteBudget(k), Ev::Deliver(l), Ev::Settle, x, Ev::Notify, Ev::Settle, Ev::Unblock, Ev::Settle, Ev::Close, Ev::Settle]);
            }
            for sc in &scs {
                let wit = || format!("source=7->8 stream={} hex={} sched={}", st.names, hex(&st.bytes), render_script(sc));
                if let Some((_, w)) = &ctx.replay { if *w != wit() { continue } }
                o.evals += 1; o.trans += sc.len() as u64;
                let held_x = sc.iter().any(|e| matches!(e, Ev::WriteBudget(_))); if held_x { o.nontrivial += 1 }
                let run = guard(|| { let src2 = Src::with_states(&[d7.clone(), d8.clone()]); execute(&src2, &st.bytes, sc) });
                let obs = match run { Ok(x) => x, Err(p) => { o.fails.push(("C08.source.consistent", wit(), format!("panic: {p}"))); continue } };
                let verdict = (|| -> Result<&'static str, String> {
                    if obs.conn_panicked || obs.livelock || obs.spin || obs.flood { return Err("panic / livelock / spin / flood".into()) }
                    if !obs.conn_ended { return Err("connection still open after the client closed (hang)".into()) }
                    let p = parse(&obs.out)?;
                    if !p.complaints.is_empty() { return Err(p.complaints.join("; ")) }
                    if !p.notify_inside.is_empty() { return Err("Serial Notify inside a response".into()) }
                    if p.units.len() != e7.len() { return Err(format!("{} responses for {} queries", p.units.len(), e7.len())) }
                    // where in the schedule the source moved
                    let xi = sc.iter().position(|e| *e == x);
                    let d_x: usize = xi.map(|xi| sc[..xi].iter().map(|e| if let Ev::Deliver(k) = e { *k } else { 0 }).sum()).unwrap_or(usize::MAX);
                    let out_at_x = xi.and_then(|xi| obs.marks.iter().filter(|m| m.at < xi).map(|m| m.out_len).last()).unwrap_or(0);
                    let mut class = "consistent:old-state";
                    for (i, &(ty, a, b)) in p.units.iter().enumerate() {
                        let got = &p.stripped[a..b];
                        let is = |e: &Expect| match e { Expect::Exact(w) => got == w.as_slice(), Expect::ErrorPdu => ty == T_ERROR };
                        let (old, new) = (is(&e7[i]), is(&e8[i]));
                        let must_new = xi.is_some() && d_x < st.bounds[i + 1];
                        let must_old = xi.is_none() || p.unit_raw_end[i] <= out_at_x;
                        let ok = if must_new { new } else if must_old { old } else { old || new };
                        if !ok {
                            let want = if must_new { "the new state" } else if must_old { "the old state" } else { "one of the two states" };
                            return Err(format!("response {} is not the model's response for {want}: PDU order (type:length) [{}], End of Data names serial {}; old state [{}] new state [{}]", i + 1,
                                pdu_order(got), if got.len() >= 12 && ty == T_RESPONSE { let e = &got[got.len() - if got[0] == 0 { 4 } else { 16 }..]; u32::from_be_bytes([e[0], e[1], e[2], e[3]]).to_string() } else { "-".into() },
                                if let Expect::Exact(w) = &e7[i] { pdu_order(w) } else { "error".into() }, if let Expect::Exact(w) = &e8[i] { pdu_order(w) } else { "error".into() }))
                        }
                        if new && !old { class = "consistent:new-state" }
                    }
                    Ok(class)
                })();
                match verdict { Ok(c) => *o.oc.entry(c).or_insert(0) += 1, Err(d) => { o.fails.push(("C08.source.consistent", wit(), d)); *o.oc.entry("violation").or_insert(0) += 1 } }
            }
            o
        }).collect();
        for o in outs {
            sp.evals(o.evals); sp.nontrivial(o.nontrivial); sp.merge_outcomes(&o.oc); sp.states(o.evals); sp.traces(o.evals); sp.transitions(o.trans);
            for (oracle, w, d) in o.fails { ctx.fail(oracle, w, d) }
        }
        sp.set("streams", serde_json::json!(sis.len()));
        sp.sample_str(|| format!("source=7->8 stream={} sched=B9 d8 | X0 | U | C |", streams[sis[0]].names));
        sp.done(true, &format!("{} streams x source advance at every schedule position and at every octet of a held-back response", sis.len()));
    }

    //--- (4b) everything else the source reports moves as well -----------------------------
    let sp = ctx.space("participants.reports",
        "streams of <= 3 well-formed queries of one version (0, 1, 2); the source is a chain of 2 or 3 states that differ in what it REPORTS besides the payload: timing values (once, twice), data and timing together / one after the other, ready -> not ready, not ready -> ready (then new timing), not ready in between, a new session (restart: other session id, serial 1, no diffs; alone, with and after new timing); every move is an event X placed at every position of the event order: before / after / batched with the octets, at every cut position (quick: for 3-query streams at the query boundaries), with all query boundaries cut and the moves spread over them (a move between the first and the second and another between the second and the third response of ONE connection), and - with the responses held back after k octets for EVERY k up to their length - while a response is partly written; plus one notify event before / between / after the moves at every query boundary (own batches and one batch); oracle: every response is, octet for octet, the model's response for the source as it was at some point between the arrival of the query's last octet and the response's last octet on the wire (payload, session and serial of ONE such state, timing values of ONE such state; an Error Report if the source was not ready at such a point), and a Serial Notify carries the negotiated version and the session and serial of a state between the notify event and its last octet; non-trivial = schedules in which a response other than the connection's first must reflect a move (measured)");
    {
        let (t0, t1, t2) = ([REFRESH, RETRY, EXPIRE], [44u32, 55, 66], [77u32, 88, 99]);
        let r0 = Report::base();
        let mk = |name: &'static str, f: &dyn Fn(&mut Report)| { let mut r = Report::base(); r.name = name; f(&mut r); r };
        let restarted = || Data { name: "restarted".into(), serial: 1, full: full_items(), diffs: vec![] };
        let rt1 = mk("timing1", &|r| r.timing = t1);
        let rt2 = mk("timing2", &|r| r.timing = t2);
        let rd = mk("data8", &|r| r.data = Data::next());
        let rdt1 = mk("data8+timing1", &|r| { r.data = Data::next(); r.timing = t1 });
        let unready = mk("not-ready", &|r| r.ready = false);
        let rs = mk("session2", &|r| { r.session = 0x4321; r.data = restarted() });
        let rst1 = mk("session2+timing1", &|r| { r.session = 0x4321; r.data = restarted(); r.timing = t1 });
        let _ = t0;
        let chains: Vec<(&'static str, Vec<Report>)> = vec![
            ("timing", vec![r0.clone(), rt1.clone()]),
            ("timing,timing", vec![r0.clone(), rt1.clone(), rt2.clone()]),
            ("data+timing", vec![r0.clone(), rdt1.clone()]),
            ("data,timing", vec![r0.clone(), rd.clone(), rdt1.clone()]),
            ("timing,data", vec![r0.clone(), rt1.clone(), rdt1.clone()]),
            ("becomes-ready", vec![unready.clone(), r0.clone()]),
            ("becomes-unready", vec![r0.clone(), unready.clone()]),
            ("becomes-ready,timing", vec![unready.clone(), r0.clone(), rt1.clone()]),
            ("unready-in-between", vec![r0.clone(), unready.clone(), rt1.clone()]),
            ("session", vec![r0.clone(), rs.clone()]),
            ("session+timing", vec![r0.clone(), rst1.clone()]),
            ("timing,session", vec![r0.clone(), rt1.clone(), rst1.clone()]),
        ];
        let version_of = |q: &Q| match q { Q::Reset(v) | Q::Serial(v, _) => Some(*v), _ => None };
        let sis: Vec<usize> = (0..streams.len()).filter(|i| {
            let st = &streams[*i];
            let v0 = version_of(&st.qs[0]);
            v0.is_some() && st.qs.iter().all(|q| version_of(q) == v0)
        }).collect();
        let thorough = ctx.tier.is_thorough();
        let x = Ev::User(X_SOURCE_ADVANCES);
        struct Out { evals: u64, nontrivial: u64, trans: u64, oc: BTreeMap<&'static str, u64>, fails: Vec<(&'static str, String, String)> }
        let jobs: Vec<(usize, usize)> = sis.iter().flat_map(|si| (0..chains.len()).map(move |ci| (*si, ci))).collect();
        let outs: Vec<Out> = jobs.par_iter().map(|&(si, ci)| {
            let mut o = Out { evals: 0, nontrivial: 0, trans: 0, oc: BTreeMap::new(), fails: vec![] };
            let st = &streams[si];
            let (cname, reports) = (chains[ci].0, &chains[ci].1);
            let n = reports.len() - 1;
            let v = version_of(&st.qs[0]).unwrap();
            let queries: Vec<Option<(u16, u32)>> = st.qs.iter().map(|q| if let Q::Serial(_, from) = q { Some((SESSION, *from)) } else { None }).collect();
            let l = st.bytes.len();
            let rmax: usize = queries.iter().map(|q| reports.iter().map(|r| if r.ready { report_unit(v, *q, r, r.timing).len() } else { 64 }).max().unwrap()).sum();
            let mut scs: Vec<Vec<Ev>> = Vec::new();
            // (a) the moves at every position of the event order
            let inner: Vec<usize> = st.bounds[1..st.bounds.len() - 1].to_vec();
            let mut cutsets: Vec<Vec<usize>> = vec![vec![]];
            if thorough || st.npdus <= 2 { for c in 1..l { cutsets.push(vec![c]) } } else { for c in &inner { cutsets.push(vec![*c]) } }
            if inner.len() >= 2 { cutsets.push(inner.clone()) }
            let mut tmp: Vec<Vec<Ev>> = Vec::new();
            for cuts in &cutsets {
                tmp.clear();
                schedules(l, cuts, n, false, &mut tmp);
                for sc in &tmp { scs.push(sc.iter().map(|e| if *e == Ev::Notify { x } else { *e }).collect()) }
            }
            // (b) the moves while a response is partly written
            for k in 0..=rmax {
                let mut a = vec![Ev::WriteBudget(k), Ev::Deliver(l), Ev::Settle];
                for _ in 0..n { a.push(x) }
                a.extend([Ev::Settle, Ev::Unblock, Ev::Settle, Ev::Close, Ev::Settle]); scs.push(a);
                if n == 2 {
                    scs.push(vec![x, Ev::Settle, Ev::WriteBudget(k), Ev::Deliver(l), Ev::Settle, x, Ev::Settle, Ev::Unblock, Ev::Settle, Ev::Close, Ev::Settle]);
                    scs.push(vec![Ev::WriteBudget(k), Ev::Deliver(l), Ev::Settle, x, Ev::Settle, x, Ev::Settle, Ev::Unblock, Ev::Settle, Ev::Close, Ev::Settle]);
                }
            }
            // (c) one notify event before / between / after the moves, at every query boundary
            for &b in &st.bounds { for m in 0..=n { for batched in [false, true] {
                let mut a = Vec::new();
                if b > 0 { a.extend([Ev::Deliver(b), Ev::Settle]) }
                for i in 0..=n {
                    if i == m { a.push(Ev::Notify); if !batched { a.push(Ev::Settle) } }
                    if i < n { a.push(x); if !batched { a.push(Ev::Settle) } }
                }
                if batched { a.push(Ev::Settle) }
                if b < l { a.extend([Ev::Deliver(l - b), Ev::Settle]) }
                a.extend([Ev::Close, Ev::Settle]); scs.push(a);
            } } }
            let src2 = match guard(|| Src::with_reports(reports)) { Ok(s) => s, Err(p) => { o.evals += 1; o.fails.push(("C08.reports.consistent", format!("reports={cname}"), format!("constructing the source panics: {p}"))); return o } };
            let show = |r: &Report| format!("{}(session {:#x}, serial {}, timing {:?}{})", r.name, r.session, r.data.serial, r.timing, if r.ready { "" } else { ", not ready" });
            for sc in &scs {
                let wit = || format!("reports={cname} stream={} hex={} sched={}", st.names, hex(&st.bytes), render_script(sc));
                if let Some((_, w)) = &ctx.replay { if *w != wit() { continue } }
                o.evals += 1; o.trans += sc.len() as u64;
                src2.rewind();
                let obs = match guard(|| execute(&src2, &st.bytes, sc)) { Ok(x) => x, Err(p) => { o.fails.push(("C08.reports.consistent", wit(), format!("panic: {p}"))); continue } };
                // where in the schedule the source moved: octets delivered before, octets on the wire at the last quiescence before
                let xs: Vec<usize> = sc.iter().enumerate().filter(|(_, e)| **e == x).map(|(i, _)| i).collect();
                let d_before = |at: usize| -> usize { sc[..at].iter().map(|e| if let Ev::Deliver(k) = e { *k } else { 0 }).sum() };
                let out_before = |at: usize| -> usize { obs.marks.iter().filter(|m| m.at < at).map(|m| m.out_len).last().unwrap_or(0) };
                let mut reflects_move = false;
                let verdict = (|| -> Result<&'static str, (&'static str, String)> {
                    let cons = |d: String| ("C08.reports.consistent", d);
                    if obs.conn_panicked || obs.livelock || obs.spin || obs.flood { return Err(cons("panic / livelock / spin / flood".into())) }
                    if !obs.conn_ended { return Err(cons("connection still open after the client closed (hang)".into())) }
                    let p = parse(&obs.out).map_err(cons)?;
                    if !p.complaints.is_empty() { return Err(cons(p.complaints.join("; "))) }
                    if !p.notify_inside.is_empty() { return Err(cons("Serial Notify inside a response".into())) }
                    if p.units.len() != queries.len() { return Err(cons(format!("{} responses for {} queries", p.units.len(), queries.len()))) }
                    let mut class = "state:initial";
                    let (mut mixed, mut unready_seen, mut moved) = (false, false, false);
                    for (i, &(ty, a, b)) in p.units.iter().enumerate() {
                        let got = &p.stripped[a..b];
                        // the states the source was in between the arrival of the query's last octet and the response's last octet
                        let lo = xs.iter().filter(|at| d_before(**at) < st.bounds[i + 1]).count();
                        let hi = xs.iter().filter(|at| out_before(**at) < p.unit_raw_end[i]).count();
                        if lo > hi { return Err(cons(format!("response {} was complete before its query was", i + 1))) }
                        if i >= 1 && lo >= 1 { reflects_move = true }
                        let mut fit: Option<(usize, usize)> = None;
                        // one state for everything first, so that the classes are stable
                        for j in lo..=hi { if reports[j].ready && got == report_unit(v, queries[i], &reports[j], reports[j].timing).as_slice() { fit = Some((j, j)); break } }
                        if fit.is_none() { 'search: for j in lo..=hi {
                            if !reports[j].ready {
                                // RFC 8210 section 8.4: no data available - an Error Report (the first query settles the version)
                                let offending = &st.bytes[st.bounds[i]..st.bounds[i + 1]];
                                if ty == T_ERROR && check_error_unit(got, &[2], if i == 0 { None } else { Some(v) }, offending).is_ok() { fit = Some((j, j)); unready_seen = true; break 'search }
                                continue
                            }
                            for j2 in lo..=hi {
                                if got == report_unit(v, queries[i], &reports[j], reports[j2].timing).as_slice() { fit = Some((j, j2)); break 'search }
                            }
                        } }
                        match fit {
                            None => {
                                let eod = if ty == T_RESPONSE && got.len() >= 24 && got[0] > 0 { let e = &got[got.len() - 16..]; let w = |k: usize| u32::from_be_bytes([e[k], e[k + 1], e[k + 2], e[k + 3]]);
                                    format!("End of Data: session {:#x}, serial {}, timing [{}, {}, {}]", u16::from_be_bytes([got[got.len() - 22], got[got.len() - 21]]), w(0), w(4), w(8), w(12)) }
                                    else if ty == T_RESPONSE && got.len() >= 12 { format!("End of Data: serial {}", u32::from_be_bytes([got[got.len() - 4], got[got.len() - 3], got[got.len() - 2], got[got.len() - 1]])) }
                                    else { format!("type {ty}") };
                                return Err(cons(format!("response {} is not the model's response for the source as it was at any point during that query (states {}): PDU order (type:length) [{}], {eod}; the model's: {}", i + 1,
                                    (lo..=hi).map(|j| show(&reports[j])).collect::<Vec<_>>().join(" / "), pdu_order(got),
                                    (lo..=hi).map(|j| if reports[j].ready { format!("[{}]", pdu_order(&report_unit(v, queries[i], &reports[j], reports[j].timing))) } else { "an Error Report".into() }).collect::<Vec<_>>().join(" / "))))
                            }
                            Some((j, j2)) => { if j != j2 { mixed = true } if j >= 1 || j2 >= 1 { moved = true } }
                        }
                    }
                    if moved { class = "state:after-a-move" }
                    if unready_seen { class = "error:source-not-ready" }
                    if mixed { class = "mixed:data-of-one-state,timing-of-another(both-during-the-query)" }
                    // the Serial Notify PDUs
                    let fired = sc.iter().filter(|e| matches!(e, Ev::Notify)).count();
                    let nt = |d: String| ("C08.reports.notify_state", d);
                    if p.notifies > fired { return Err(nt(format!("{} Serial Notify PDUs for {fired} notify events", p.notifies))) }
                    if !p.notify_bad.is_empty() { return Err(nt(p.notify_bad.join("; "))) }
                    if let Some(ni) = sc.iter().position(|e| matches!(e, Ev::Notify)) {
                        for pdu in split(&obs.out).map_err(cons)?.iter().filter(|q| q.ty == T_NOTIFY) {
                            let got = &obs.out[pdu.start..pdu.end];
                            let lo = xs.iter().filter(|at| **at < ni).count();
                            let hi = xs.iter().filter(|at| out_before(**at) < pdu.end).count();
                            if lo > hi { return Err(nt("Serial Notify on the wire before the notify event".into())) }
                            // what a source that is not ready announces is not judged
                            if (lo..=hi).any(|j| !reports[j].ready) { continue }
                            if d_before(ni) > 0 && got[0] != v { return Err(nt(format!("Serial Notify {} carries version {} on a connection that settled on version {v}", hex(got), got[0]))) }
                            if got[0] > MODEL_MAX_VERSION { return Err(nt(format!("Serial Notify {} carries the unsupported version {}", hex(got), got[0]))) }
                            let (gs, gn) = (u16::from_be_bytes([got[2], got[3]]), u32::from_be_bytes([got[8], got[9], got[10], got[11]]));
                            if !(lo..=hi).any(|j| reports[j].session == gs && reports[j].data.serial == gn) {
                                return Err(nt(format!("Serial Notify {} announces session {gs:#x} serial {gn}, which is not what the source reported at any point between the notify event and the PDU (states {})", hex(got), (lo..=hi).map(|j| show(&reports[j])).collect::<Vec<_>>().join(" / "))))
                            }
                            if class == "state:initial" || class == "state:after-a-move" { class = if lo >= 1 { "serial-notify:after-a-move" } else { "serial-notify:initial-state" } }
                        }
                    }
                    Ok(class)
                })();
                if reflects_move { o.nontrivial += 1 }
                match verdict { Ok(c) => *o.oc.entry(c).or_insert(0) += 1, Err((oracle, d)) => { o.fails.push((oracle, wit(), d)); *o.oc.entry("violation").or_insert(0) += 1 } }
            }
            o
        }).collect();
        for o in outs {
            sp.evals(o.evals); sp.nontrivial(o.nontrivial); sp.merge_outcomes(&o.oc); sp.states(o.evals); sp.traces(o.evals); sp.transitions(o.trans);
            for (oracle, w, d) in o.fails { ctx.fail(oracle, w, d) }
        }
        sp.set("streams", serde_json::json!(sis.len()));
        sp.set("chains", serde_json::json!(chains.iter().map(|(n, rs)| format!("{n}: {}", rs.iter().map(|r| format!("{}(session {:#x}, serial {}, timing {:?}, ready {})", r.name, r.session, r.data.serial, r.timing, r.ready)).collect::<Vec<_>>().join(" -> "))).collect::<Vec<_>>()));
        sp.sample_str(|| format!("reports=timing stream={} sched=d8 | X0 | d12 | C |", streams[sis[sis.len() / 2]].names));
        sp.done(true, &format!("{} streams x {} chains of source states x every position of the moves (every cut{}; every octet of the held-back responses; a notify at every query boundary)", sis.len(), chains.len(), if thorough { "" } else { " on streams of <= 2 queries, the query boundaries on streams of 3" }));
    }

    //--- (5) history: the same connection after other connections on the same thread ---
    let sp = ctx.space("history.independent",
        "subjects: a dozen (stream, schedule) runs of the server (resets and serial queries of every version, malformed queries, with notifies); predecessors, each on the same OS thread before the subjects: every subject; the client closing after k octets of a query; the response failing (writer error) after k octets; the connection abandoned (its runtime dropped) with the response pending after k octets; the stream failing after k octets - for EVERY k; every sequence runs on a thread of its own, subjects forward and in reverse order, and every transcript is compared with the subject run first thing on a fresh thread; non-trivial = sequences whose predecessor ends abnormally");
    {
        let pick = |name: &str| streams.iter().position(|s| s.names == name).expect("stream of the alphabet");
        let subj: Vec<(usize, Vec<Ev>)> = {
            let one = |si: usize| vec![Ev::Deliver(streams[si].bytes.len()), Ev::Settle, Ev::Close, Ev::Settle];
            let mut v = Vec::new();
            for n in ["reset0", "reset1", "reset2", "serial1.diff", "serial1.nodiff", "serial2.current", "reset3", "type9", "serial1.hdr.len8", "reset2,serial2.current", "reset1,serial1.diff"] { let si = pick(n); v.push((si, one(si))) }
            let si = pick("reset2"); v.push((si, vec![Ev::Deliver(3), Ev::Settle, Ev::Notify, Ev::Settle, Ev::Deliver(5), Ev::Settle, Ev::Notify, Ev::Settle, Ev::Close, Ev::Settle]));
            v.push((si, vec![Ev::WriteChunk(5), Ev::Deliver(8), Ev::Settle, Ev::Close, Ev::Settle]));
            v
        };
        #[derive(Clone, Debug)] enum Pred { Subject(usize), Script(usize, Vec<Ev>, bool) }
        let mut preds: Vec<Pred> = (0..subj.len()).map(Pred::Subject).collect();
        for n in ["reset2", "serial1.diff", "reset2,serial2.current"] {
            let si = pick(n); let l = streams[si].bytes.len(); let r = refs[si].out.len();
            for k in 0..l {
                preds.push(Pred::Script(si, vec![Ev::Deliver(k), Ev::Settle, Ev::Close, Ev::Settle], false));
                preds.push(Pred::Script(si, vec![Ev::Deliver(k), Ev::Settle, Ev::User(X_READS_FAIL), Ev::Settle], false));
            }
            for k in 0..r {
                preds.push(Pred::Script(si, vec![Ev::WriteBudget(k), Ev::Deliver(l), Ev::Settle, Ev::User(X_WRITES_FAIL), Ev::Unblock, Ev::Settle, Ev::Close, Ev::Settle], false));
                preds.push(Pred::Script(si, vec![Ev::WriteBudget(k), Ev::Deliver(l), Ev::Settle], true));
            }
        }
        let run_subject = |i: usize| -> String { match guard(|| execute(&src, &streams[subj[i].0].bytes, &subj[i].1)) { Ok(o) => format!("{} ended={} updates={:?}", hex(&o.out), o.conn_ended, o.updates), Err(p) => format!("PANIC {p}") } };
        let fresh = |f: &(dyn Fn() -> Vec<String> + Sync)| -> Vec<String> { std::thread::scope(|sc| sc.spawn(|| f()).join().expect("history thread died")) };
        let baseline: Vec<String> = (0..subj.len()).into_par_iter().map(|i| fresh(&|| vec![run_subject(i)]).remove(0)).collect();
        struct Out { evals: u64, nontrivial: u64, oc: BTreeMap<&'static str, u64>, fails: Vec<(String, String)> }
        let outs: Vec<Out> = preds.par_iter().map(|pred| {
            let mut o = Out { evals: 0, nontrivial: 0, oc: BTreeMap::new(), fails: vec![] };
            let abnormal = matches!(pred, Pred::Script(..));
            for reverse in [false, true] {
                let order: Vec<usize> = if reverse { (0..subj.len()).rev().collect() } else { (0..subj.len()).collect() };
                let obs = fresh(&|| {
                    let _ = guard(|| match pred {
                        Pred::Subject(i) => { run_subject(*i); }
                        Pred::Script(si, sc, abandon) => {
                            if *abandon { let own = Sched::new(); execute_with(&src, &streams[*si].bytes, sc, Party::Alone, Some(&own)); drop(own) }
                            else { execute(&src, &streams[*si].bytes, sc); }
                        }
                    });
                    order.iter().map(|i| run_subject(*i)).collect()
                });
                o.evals += obs.len() as u64; if abnormal { o.nontrivial += 1 }
                let mut same = true;
                for (ob, i) in obs.iter().zip(order.iter()) {
                    if *ob != baseline[*i] {
                        same = false;
                        let ptext = match pred { Pred::Subject(p) => format!("[stream={} sched={}]", streams[subj[*p].0].names, render_script(&subj[*p].1)),
                            Pred::Script(si, sc, ab) => format!("[stream={} sched={}{}]", streams[*si].names, render_script(sc), if *ab { " then the runtime is dropped" } else { "" }) };
                        o.fails.push((format!("after {ptext}{}: stream={} sched={}", if reverse { " (subjects in reverse order)" } else { "" }, streams[subj[*i].0].names, render_script(&subj[*i].1)),
                            format!("transcript differs from the run on a fresh thread: here {} fresh {}", rpki_verif::trunc(ob, 200), rpki_verif::trunc(&baseline[*i], 200))));
                    }
                }
                *o.oc.entry(if !same { "violation" } else if abnormal { "independent:after-abnormal-end" } else { "independent:after-normal-end" }).or_insert(0) += 1;
            }
            o
        }).collect();
        for o in outs {
            sp.evals(o.evals); sp.nontrivial(o.nontrivial); sp.merge_outcomes(&o.oc); sp.states(o.evals); sp.traces(o.evals); sp.transitions(o.evals);
            for (w, d) in o.fails { ctx.fail("C08.history.independent", w, d) }
        }
        sp.set("predecessors", serde_json::json!(preds.len()));
        sp.sample_str(|| "after [stream=reset2 sched=B40 d8 | then the runtime is dropped]: stream=reset1 sched=d8 | C |".to_string());
        sp.done(true, &format!("{} subjects after each of {} predecessors, both orders, one OS thread per sequence", subj.len(), preds.len()));
    }
    }

    ctx.finish();
}
